package main

import (
	"encoding/json"
	"fmt"
	"math"
	"math/big"
	"math/rand"
	"sort"
	"strings"
	"time"

	"github.com/mongodb/ftdc/hdrhist"
	"go.mongodb.org/mongo-driver/bson"
)

func init() {
	streams["hdr-grid"] = hdrGrid
	streams["hdr-stat"] = hdrStat
	commands["hdr-rec"] = cmdHdrRec
	commands["hdr-probe"] = cmdHdrProbe
	commands["hdr-stat"] = cmdHdrStat
	commands["hdr-ops"] = cmdHdrOps
	commands["hdr-merge"] = cmdHdrMerge
	commands["hdr-import"] = cmdHdrImport
	commands["hdr-window"] = cmdHdrWindow
}

// equivalent range reported for v by a histogram holding only v (public API only).
func hdrRange(h *hdrhist.Histogram) (lo, hi int64, ok bool) {
	for _, b := range h.Distribution() {
		if b.Count != 0 {
			return b.From, b.To, true
		}
	}
	return 0, 0, false
}

func pow10(s int) int64 {
	r := int64(1)
	for i := 0; i < s; i++ {
		r *= 10
	}
	return r
}

func widthOK(mn int64, s int, v, size int64) bool {
	unit := int64(1)
	for unit*2 <= mn {
		unit *= 2
	}
	bound := new(big.Int).Mul(big.NewInt(size), big.NewInt(pow10(s)))
	return size <= unit || bound.Cmp(big.NewInt(v)) <= 0
}

// hdr-rec <min> <max> <sigfigs> <v>: fresh histogram, public API only.
func cmdHdrRec(o *Out, line string, f []string) {
	mn, mx, s, v := atoi64(f[0]), atoi64(f[1]), int(atoi64(f[2])), atoi64(f[3])
	h := hdrhist.New(mn, mx, s)
	n := len(h.Export().Counts)
	err := h.RecordValue(v)
	if err != nil {
		o.emit(line, fmt.Sprintf("len=%d err", n))
		if v >= 0 && v <= mx {
			o.violation(line, "RecordValue rejects a value within the trackable range", map[string]interface{}{"min": mn, "max": mx, "sigfigs": s, "v": v})
		}
		if h.TotalCount() != 0 {
			o.violation(line, "rejected value changed the histogram", nil)
		}
		return
	}
	if v < 0 {
		o.emit(line, fmt.Sprintf("len=%d ok", n))
		return
	}
	idx, cnt := -1, 0
	for i, c := range h.Export().Counts {
		if c != 0 {
			idx = i
			cnt++
		}
	}
	lo, hi, ok := hdrRange(h)
	size := hi - lo + 1
	o.emit(line, fmt.Sprintf("len=%d ok idx=%d total=%d lo=%d hi=%d size=%d", n, idx, h.TotalCount(), lo, hi, size))
	o.nontrivial(fmt.Sprintf("%d/%d/%d/%d", mn, mx, s, idx))
	if !ok || cnt != 1 || h.TotalCount() != 1 {
		o.violation(line, "count not conserved for a single recorded value", nil)
		return
	}
	if !(lo <= v && v <= hi) {
		o.violation(line, "value outside its reported equivalent range", map[string]int64{"lo": lo, "hi": hi})
	}
	if !widthOK(mn, s, v, size) {
		o.violation(line, "equivalent range wider than max(unit, v*10^-sigfigs)", map[string]int64{"size": size})
	}
	if h.Min() != lo || h.Max() != hi || h.ValueAtQuantile(50) != hi || h.ValueAtQuantile(100) != hi {
		o.violation(line, "Min/Max/quantile of single-value histogram disagree with its range",
			map[string]int64{"min": h.Min(), "max": h.Max(), "q50": h.ValueAtQuantile(50), "lo": lo, "hi": hi})
	}
}

var probeHist *hdrhist.Histogram
var probeKey string

// hdr-probe <min> <max> <sigfigs> <v>: O(1) through the verif-tagged probe (large configurations).
// The histogram is shared between consecutive cases of one configuration: whether a value is
// accepted does not depend on what was recorded before.
func cmdHdrProbe(o *Out, line string, f []string) {
	mn, mx, s, v := atoi64(f[0]), atoi64(f[1]), int(atoi64(f[2])), atoi64(f[3])
	key := strings.Join(f[:3], " ")
	if probeKey != key {
		probeHist, probeKey = hdrhist.New(mn, mx, s), key
	}
	h := probeHist
	idx, n, lo, hi := h.VerifProbe(v)
	before := h.TotalCount()
	err := h.RecordValue(v)
	if err != nil {
		o.emit(line, fmt.Sprintf("len=%d err", n))
		if v >= 0 && v <= mx {
			o.violation(line, "RecordValue rejects a value within the trackable range", map[string]interface{}{"min": mn, "max": mx, "sigfigs": s, "v": v})
		}
		if h.TotalCount() != before {
			o.violation(line, "rejected value changed the total count", nil)
		}
		return
	}
	size := hi - lo + 1
	o.emit(line, fmt.Sprintf("len=%d ok idx=%d lo=%d hi=%d size=%d", n, idx, lo, hi, size))
	o.nontrivial(fmt.Sprintf("%d/%d/%d/%d", mn, mx, s, idx))
	if h.TotalCount() != before+1 {
		o.violation(line, "accepted value did not increase the total count by one", nil)
	}
	if !(lo <= v && v <= hi) {
		o.violation(line, "value outside its reported equivalent range", map[string]int64{"lo": lo, "hi": hi})
	}
	if !widthOK(mn, s, v, size) {
		o.violation(line, "equivalent range wider than max(unit, v*10^-sigfigs)", map[string]int64{"size": size})
	}
}

func hdrGrid(o *Out, rng *rand.Rand, thorough bool, _ []string) {
	// exhaustive small grid: every v in -1..max+2
	mins := []int64{0, 1, 2, 3, 8, 10, 1000}
	sigs := []int{1, 2, 3}
	maxes := []int64{2, 7, 16, 63, 64, 65, 100, 1000, 2047, 2048, 2049, 4096, 5000}
	if thorough {
		maxes = append(maxes, 8191, 8192, 16384)
		sigs = append(sigs, 4, 5)
	}
	for _, s := range sigs {
		for _, mn := range mins {
			for _, mx := range maxes {
				if mx < 2*mn || mx < 2 {
					continue
				}
				if s >= 4 && mx > 2049 {
					continue // 4 and 5 significant figures have counts arrays of 10^5..10^6 entries: small maxima only
				}
				o.count(fmt.Sprintf("grid-cfg-s%d", s))
				for v := int64(-1); v <= mx+2; v++ {
					run(o, fmt.Sprintf("hdr-rec %d %d %d %d", mn, mx, s, v))
				}
			}
		}
	}
	// random large configurations, values at bucket and sub-bucket boundaries +-1
	nrand := 300
	if thorough {
		nrand = 6000
	}
	for i := 0; i < nrand; i++ {
		s := 1 + rng.Intn(5)
		mn := int64(0)
		switch rng.Intn(4) {
		case 0:
			mn = 1
		case 1:
			mn = int64(1) << uint(rng.Intn(20))
		case 2:
			mn = int64(1)<<uint(rng.Intn(20)) + int64(rng.Intn(3)) - 1
		case 3:
			mn = int64(rng.Intn(5000))
		}
		if mn < 0 {
			mn = 0
		}
		var mx int64
		switch rng.Intn(3) {
		case 0:
			mx = int64(1) << uint(1+rng.Intn(40))
		case 1:
			mx = int64(1)<<uint(1+rng.Intn(40)) + int64(rng.Intn(3)) - 1
		default:
			mx = rng.Int63n(int64(1) << 40)
		}
		if mx < 2*mn || mx < 2 {
			mx = 2*mn + 2
		}
		o.count(fmt.Sprintf("rand-cfg-s%d", s))
		vals := []int64{0, 1, mn, mx - 1, mx, mx + 1, mx / 2}
		for k := 0; k < 24; k++ {
			b := int64(1) << uint(rng.Intn(42))
			m := int64(1 + rng.Intn(1<<uint(1+rng.Intn(18))))
			v := b * m
			vals = append(vals, v-1, v, v+1)
		}
		// leading-one patterns with random lower bits: 2^j + uniform[0, 2^(j-t)) puts the top bits exactly on
		// a threshold of the bit-length cascade (t = 1, 3, 7, 15) while the lower bits still vary
		for k := 0; k < 32; k++ {
			j := uint(rng.Intn(42))
			t := []uint{1, 3, 7, 15}[rng.Intn(4)]
			span := int64(1)
			if j > t {
				span = int64(1) << (j - t)
			}
			vals = append(vals, int64(1)<<j+rng.Int63n(span))
		}
		for _, v := range vals {
			if v < 0 || v > mx+1 {
				continue
			}
			if s <= 3 {
				// small counts arrays: the full public-API oracle (the bar that counts v must contain v)
				run(o, fmt.Sprintf("hdr-rec %d %d %d %d", mn, mx, s, v))
			} else {
				run(o, fmt.Sprintf("hdr-probe %d %d %d %d", mn, mx, s, v))
			}
		}
	}
	// the largest configurations an int64 can name: highest trackable value just below, at and above 2^62 (the sizing
	// loop of New doubles an int64 until it exceeds the highest value).  In a child process with a watchdog.
	runIsolated(o, []string{
		fmt.Sprintf("hdr-rec 1 %d 1 5", int64(1)<<62-1),
		fmt.Sprintf("hdr-rec 1 %d 1 %d", int64(1)<<62-1, int64(1)<<62-1),
		fmt.Sprintf("hdr-rec 1 %d 1 5", int64(1)<<62),
	}, 4*time.Second)
}

// ---- hdr-stat: multisets vs exact oracle, merge, window, export/import, marshalling ----

func joinInts(vs []int64) string {
	ss := make([]string, len(vs))
	for i, v := range vs {
		ss[i] = fmt.Sprint(v)
	}
	return strings.Join(ss, " ")
}

func sparse(cs []int64) string {
	var parts []string
	for i, c := range cs {
		if c != 0 {
			parts = append(parts, fmt.Sprintf("%d:%d", i, c))
		}
	}
	return strings.Join(parts, " ")
}

func histCfgLine(h *hdrhist.Histogram) string {
	cs := h.Export().Counts
	return fmt.Sprintf("cfg=%d total=%d counts=[%s]", len(cs), h.TotalCount(), sparse(cs))
}

func recordAll(o *Out, line string, h *hdrhist.Histogram, mx int64, vs []int64) (acc []int64) {
	stats := func() [5]int64 {
		return [5]int64{h.Max(), h.Min(), int64(math.Float64bits(h.Mean())), h.ValueAtQuantile(50), h.ValueAtQuantile(99.9)}
	}
	for _, v := range vs {
		before := h.Export().Counts
		bt := h.TotalCount()
		sb := stats()
		if err := h.RecordValue(v); err == nil {
			acc = append(acc, v)
			continue
		}
		if sa := stats(); sa != sb {
			o.violation(line, "rejected value changed what the histogram reports (Max, Min, Mean or a quantile)", map[string]interface{}{"v": v, "before": sb, "after": sa})
		}
		if v >= 0 && v <= mx {
			o.violation(line, "RecordValue rejects a value within the trackable range", map[string]int64{"v": v})
		}
		after := h.Export().Counts
		same := bt == h.TotalCount()
		for j := range before {
			if before[j] != after[j] {
				same = false
			}
		}
		if !same {
			o.violation(line, "rejected value changed the histogram", map[string]int64{"v": v})
		}
	}
	return acc
}

// hdr-stat <min> <max> <sig> | values | ranks  -- ranks are countAtPercentile values; the q that
// produced each rank by the library's own float expression is kept in qOfRank for the harness.
var qOfRank = map[string][]float64{}

func rankOf(q float64, total int64) int64 {
	if q > 100 {
		q = 100
	}
	return int64(((q / 100) * float64(total)) + 0.5)
}

func cmdHdrStat(o *Out, line string, f []string) {
	sec := sections(f)
	mn, mx, s := atoi64(sec[0][0]), atoi64(sec[0][1]), int(atoi64(sec[0][2]))
	vs, ranks := ints64(sec[1]), ints64(sec[2])
	h := hdrhist.New(mn, mx, s)
	acc := recordAll(o, line, h, mx, vs)
	// for each requested rank find a q whose library-side rank is exactly that rank
	qs := qOfRank[line]
	if qs == nil {
		for _, r := range ranks {
			q := 0.0
			if h.TotalCount() > 0 {
				q = 100 * float64(r) / float64(h.TotalCount())
			}
			for d := 0; d < 4 && rankOf(q, h.TotalCount()) != r; d++ {
				q = math.Nextafter(q, 200)
			}
			qs = append(qs, q)
		}
	}
	var qv []int64
	for i, q := range qs {
		if rankOf(q, h.TotalCount()) != ranks[i] {
			qv = append(qv, -1) // rank not expressible as a quantile (replay of a hand-made line)
			continue
		}
		qv = append(qv, h.ValueAtQuantile(q))
	}
	dist := h.Distribution()
	var dsum int64
	var dparts []string
	for _, b := range dist {
		dsum += b.Count
		if b.Count != 0 {
			dparts = append(dparts, fmt.Sprintf("%d-%d:%d", b.From, b.To, b.Count))
		}
	}
	meannum := int64(math.Round(h.Mean() * float64(h.TotalCount())))
	o.emit(line, fmt.Sprintf("total=%d min=%d max=%d meannum=%d q=[%s] bars=%d barsum=%d dist=[%s]",
		h.TotalCount(), h.Min(), h.Max(), meannum, joinInts(qv), len(dist), dsum, strings.Join(dparts, " ")))
	o.nontrivial(fmt.Sprintf("%d/%d/%d/%s", mn, mx, s, sparse(h.Export().Counts)))
	o.count(fmt.Sprintf("stat-n<%d", 10*(1+len(acc)/10)))

	// --- exact oracle (C13, and C12's counting clause) ---
	if h.TotalCount() != int64(len(acc)) || dsum != int64(len(acc)) {
		o.violation(line, "TotalCount / bar sum differs from number of accepted values", map[string]int64{"total": h.TotalCount(), "barsum": dsum, "accepted": int64(len(acc))})
	}
	sorted := append([]int64(nil), acc...)
	sort.Slice(sorted, func(a, b int) bool { return sorted[a] < sorted[b] })
	single := func(v int64) (int64, int64) {
		p := hdrhist.New(mn, mx, s)
		_ = p.RecordValue(v)
		lo, hi, _ := hdrRange(p)
		return lo, hi
	}
	prev := int64(-1)
	prevRank := int64(-1)
	for k := range qs {
		r, got := ranks[k], qv[k]
		if got < 0 {
			continue
		}
		if r >= prevRank && got < prev {
			o.violation(line, "ValueAtQuantile not monotone in q", map[string]interface{}{"q": qs[k]})
		}
		prev, prevRank = got, r
		if r >= 1 && r <= int64(len(sorted)) {
			_, hi := single(sorted[r-1])
			if got != hi {
				o.violation(line, "ValueAtQuantile differs from representative of exact order statistic",
					map[string]interface{}{"q": qs[k], "rank": r, "got": got, "want": hi, "orderstat": sorted[r-1]})
			}
		}
	}
	if len(sorted) > 0 {
		lo, _ := single(sorted[0])
		_, hi := single(sorted[len(sorted)-1])
		if h.Min() != lo || h.Max() != hi {
			o.violation(line, "Min/Max differ from the equivalent range of the exact extremes", map[string]int64{"min": h.Min(), "max": h.Max(), "wantmin": lo, "wantmax": hi})
		}
		var sum, slack float64
		for _, v := range sorted {
			l, hh := single(v)
			sum += float64(v)
			slack += float64(hh - l + 1)
		}
		exact := sum / float64(len(sorted))
		if math.Abs(h.Mean()-exact) > slack/float64(len(sorted))+1e-6*math.Abs(exact) {
			o.violation(line, "Mean outside precision bound", map[string]float64{"mean": h.Mean(), "exact": exact})
		}
	}
}

// hdr-merge cfgA | valsA | cfgB | valsB : merge B into A
func cmdHdrMerge(o *Out, line string, f []string) {
	sec := sections(f)
	mnA, mxA, sA := atoi64(sec[0][0]), atoi64(sec[0][1]), int(atoi64(sec[0][2]))
	mnB, mxB, sB := atoi64(sec[2][0]), atoi64(sec[2][1]), int(atoi64(sec[2][2]))
	va, vb := ints64(sec[1]), ints64(sec[3])
	a, b := hdrhist.New(mnA, mxA, sA), hdrhist.New(mnB, mxB, sB)
	for _, v := range va {
		_ = a.RecordValue(v)
	}
	for _, v := range vb {
		_ = b.RecordValue(v)
	}
	aBefore := a.TotalCount()
	bcopy := hdrhist.Import(b.Export())
	dropped := a.Merge(b)
	o.emit(line, fmt.Sprintf("dropped=%d %s", dropped, histCfgLine(a)))
	o.count("merge")
	o.nontrivial(line)
	if !b.Equals(bcopy) {
		o.violation(line, "Merge modified its argument", nil)
	}
	if mnA == mnB && mxA == mxB && sA == sB {
		u := hdrhist.New(mnA, mxA, sA)
		for _, v := range append(append([]int64{}, va...), vb...) {
			_ = u.RecordValue(v)
		}
		if dropped != 0 || !a.Equals(u) {
			o.violation(line, "merge of same-configuration histograms differs from recording the union", map[string]int64{"dropped": dropped})
		}
		a2, b2 := hdrhist.New(mnA, mxA, sA), hdrhist.New(mnA, mxA, sA)
		for _, v := range va {
			_ = a2.RecordValue(v)
		}
		for _, v := range vb {
			_ = b2.RecordValue(v)
		}
		b2.Merge(a2)
		if !b2.Equals(u) {
			o.violation(line, "merge is order dependent", nil)
		}
	} else {
		var want int64
		for _, bar := range bcopy.Distribution() {
			if bar.Count != 0 {
				p := hdrhist.New(mnA, mxA, sA)
				if p.RecordValue(bar.From) != nil {
					want += bar.Count
				}
			}
		}
		if dropped != want || a.TotalCount() != aBefore+bcopy.TotalCount()-want {
			o.violation(line, "dropped count of merge is not exact", map[string]int64{"dropped": dropped, "want": want})
		}
		// ... and what is not dropped lands where recording it would put it: the union, with every value of
		// the argument replaced by the lower end of its range there
		u := hdrhist.New(mnA, mxA, sA)
		for _, v := range va {
			_ = u.RecordValue(v)
		}
		for _, bar := range bcopy.Distribution() {
			if bar.Count != 0 {
				_ = u.RecordValues(bar.From, bar.Count)
			}
		}
		if !a.Equals(u) {
			o.violation(line, "merge across configurations differs from recording the argument's values", map[string]int64{"dropped": dropped})
		}
	}
}

// hdr-ops <min> <max> <sig> | ops: c<v>:<ei> RecordCorrectedValue, n<v>:<k> RecordValues(v, k), r<v> RecordValue, z Reset.
// Oracle: a twin histogram is driven with single RecordValue calls only - the explicit list of values each operation
// stands for - and must be Equal at the end (and after every operation the totals agree).
func cmdHdrOps(o *Out, line string, f []string) {
	sec := sections(f)
	mn, mx, s := atoi64(sec[0][0]), atoi64(sec[0][1]), int(atoi64(sec[0][2]))
	h := hdrhist.New(mn, mx, s)
	twin := hdrhist.New(mn, mx, s)
	var res []string
	two := func(x string) (int64, int64) {
		c := strings.IndexByte(x, ':')
		return atoi64(x[:c]), atoi64(x[c+1:])
	}
	for _, op := range sec[1] {
		switch op[0] {
		case 'z':
			h.Reset()
			twin = hdrhist.New(mn, mx, s)
			res = append(res, "z")
		case 'r':
			v := atoi64(op[1:])
			err := h.RecordValue(v)
			if err == nil {
				_ = twin.RecordValue(v)
			}
			res = append(res, map[bool]string{true: "o", false: "e"}[err == nil])
		case 'n':
			v, k := two(op[1:])
			err := h.RecordValues(v, k)
			if err == nil {
				for i := int64(0); i < k; i++ {
					_ = twin.RecordValue(v)
				}
			}
			res = append(res, map[bool]string{true: "o", false: "e"}[err == nil])
		case 'c':
			v, ei := two(op[1:])
			err := h.RecordCorrectedValue(v, ei)
			// what the call stands for: v, and for a stall every v - k*ei >= ei; recording stops at the first refused value
			if twin.RecordValue(v) == nil && ei > 0 && v > ei {
				for m := v - ei; m >= ei; m -= ei {
					if twin.RecordValue(m) != nil {
						break
					}
				}
			}
			res = append(res, map[bool]string{true: "o", false: "e"}[err == nil])
		}
		if h.TotalCount() != twin.TotalCount() {
			o.violation(line, "after this operation the total count differs from recording the same values one by one",
				map[string]interface{}{"op": op, "total": h.TotalCount(), "one_by_one": twin.TotalCount()})
			break
		}
	}
	o.emit(line, fmt.Sprintf("%s %s", strings.Join(res, " "), histCfgLine(h)))
	o.nontrivial(line)
	o.count("hdr-ops")
	if !h.Equals(twin) {
		o.violation(line, "the histogram differs from one in which the same values were recorded one by one", nil)
	}
	var dsum int64
	for _, b := range h.Distribution() {
		dsum += b.Count
	}
	if dsum != h.TotalCount() {
		o.violation(line, "TotalCount differs from the sum of the Distribution bars", map[string]int64{"total": h.TotalCount(), "bars": dsum})
	}
}

func cmdHdrImport(o *Out, line string, f []string) {
	sec := sections(f)
	mn, mx, s := atoi64(sec[0][0]), atoi64(sec[0][1]), int(atoi64(sec[0][2]))
	h := hdrhist.New(mn, mx, s)
	for _, v := range ints64(sec[1]) {
		_ = h.RecordValue(v)
	}
	h2 := hdrhist.Import(h.Export())
	o.emit(line, fmt.Sprintf("equal=%v %s", h2.Equals(h), histCfgLine(h2)))
	o.count("import")
	if !h2.Equals(h) {
		o.violation(line, "Import(Export(h)) differs from h", nil)
	}
	if bs, err := h.MarshalBSON(); err != nil {
		o.violation(line, "MarshalBSON failed", err.Error())
	} else {
		h3 := &hdrhist.Histogram{}
		if err := h3.UnmarshalBSON(bs); err != nil || !h3.Equals(h) {
			o.violation(line, "BSON marshalling round trip differs", fmt.Sprint(err))
		}
		var snap hdrhist.Snapshot
		if err := bson.Unmarshal(bs, &snap); err != nil {
			o.violation(line, "BSON output not parseable by the driver codec", err.Error())
		}
		// decoding replaces whatever the receiver held: a used histogram of the same configuration, one of another
		// configuration, and the same receiver twice
		used := hdrhist.New(mn, mx, s)
		_ = used.RecordValue(mn)
		_ = used.RecordValues(mx/2, 3)
		other := hdrhist.New(1, 1000, 2)
		_ = other.RecordValue(7)
		for _, r := range []*hdrhist.Histogram{used, other, h3, h3} {
			if err := r.UnmarshalBSON(bs); err != nil || !r.Equals(h) || r.TotalCount() != h.TotalCount() || r.Max() != h.Max() ||
				r.ValueAtQuantile(50) != h.ValueAtQuantile(50) {
				o.violation(line, "BSON decoding into a histogram that was in use does not reproduce the encoded histogram", fmt.Sprint(err))
				break
			}
		}
	}
	if js, err := json.Marshal(h); err != nil {
		o.violation(line, "MarshalJSON failed", err.Error())
	} else {
		h4 := &hdrhist.Histogram{}
		if err := json.Unmarshal(js, h4); err != nil || !h4.Equals(h) {
			o.violation(line, "JSON marshalling round trip differs", fmt.Sprint(err))
		}
		used := hdrhist.New(mn, mx, s)
		_ = used.RecordValue(mn)
		_ = used.RecordValues(mx/2, 3)
		for _, r := range []*hdrhist.Histogram{used, h4, h4} {
			if err := json.Unmarshal(js, r); err != nil || !r.Equals(h) || r.TotalCount() != h.TotalCount() || r.Max() != h.Max() ||
				r.ValueAtQuantile(50) != h.ValueAtQuantile(50) {
				o.violation(line, "JSON decoding into a histogram that was in use does not reproduce the encoded histogram", fmt.Sprint(err))
				break
			}
		}
	}
}

// hdr-window n | cfg | ops (r<v> record into current window, rot = Rotate)
func cmdHdrWindow(o *Out, line string, f []string) {
	sec := sections(f)
	n := int(atoi64(sec[0][0]))
	mn, mx, s := atoi64(sec[1][0]), atoi64(sec[1][1]), int(atoi64(sec[1][2]))
	w := hdrhist.NewWindowed(n, mn, mx, s)
	gens := [][]int64{{}}
	union := func() *hdrhist.Histogram {
		u := hdrhist.New(mn, mx, s)
		lo := len(gens) - n
		if lo < 0 {
			lo = 0
		}
		for _, g := range gens[lo:] {
			for _, v := range g {
				_ = u.RecordValue(v)
			}
		}
		return u
	}
	for _, op := range sec[2] {
		if op == "rot" {
			w.Rotate()
			gens = append(gens, []int64{})
		} else if op == "mrg" {
			// an intermediate Merge: reading, it changes nothing, and it is the union of the last n windows NOW
			if m := w.Merge(); !m.Equals(union()) {
				o.violation(line, "an intermediate Merge of the windowed histogram differs from the union of its last n windows at that moment", nil)
			}
		} else {
			v := atoi64(op[1:])
			if w.Current.RecordValue(v) == nil {
				gens[len(gens)-1] = append(gens[len(gens)-1], v)
			}
		}
	}
	m := w.Merge()
	o.emit(line, fmt.Sprintf("dropped=0 %s", histCfgLine(m)))
	o.count(fmt.Sprintf("window-n%d", n))
	o.nontrivial(line)
	u := hdrhist.New(mn, mx, s)
	lo := len(gens) - n
	if lo < 0 {
		lo = 0
	}
	for _, g := range gens[lo:] {
		for _, v := range g {
			_ = u.RecordValue(v)
		}
	}
	if !m.Equals(u) {
		o.violation(line, "windowed merge differs from the union of its last n windows", nil)
	}
}

func genMultiset(rng *rand.Rand, mx int64, n int) []int64 {
	vs := make([]int64, 0, n)
	mode := rng.Intn(4)
	for i := 0; i < n; i++ {
		var v int64
		switch mode {
		case 0:
			v = rng.Int63n(mx + 1)
		case 1:
			v = int64(math.Exp(rng.Float64() * math.Log(float64(mx)+1)))
		case 2:
			b := int64(1) << uint(rng.Intn(41))
			v = b*int64(1+rng.Intn(4)) + int64(rng.Intn(3)) - 1
			if v > mx+3 {
				v = mx - int64(rng.Intn(3))
			}
		default:
			v = int64(rng.Intn(4)) * (mx / 3)
		}
		if rng.Intn(40) == 0 {
			v = mx + 1 + int64(rng.Intn(5))
		}
		if v < 0 {
			v = 0
		}
		// values that the histogram must refuse: far above the array's capacity, or negative
		switch rng.Intn(60) {
		case 0:
			v = mx*int64(2+rng.Intn(6)) + int64(rng.Intn(100))
		case 1:
			v = int64(1)<<uint(45+rng.Intn(17)) + int64(rng.Intn(1000))
		case 2:
			v = -1 - int64(rng.Intn(5))
		}
		vs = append(vs, v)
	}
	return vs
}

func scaleInts(vs []int64, k int64) []int64 {
	out := make([]int64, len(vs))
	for i, v := range vs {
		out[i] = v * k
	}
	return out
}

func hdrStat(o *Out, rng *rand.Rand, thorough bool, _ []string) {
	ncases := 250
	if thorough {
		ncases = 5000
	}
	for i := 0; i < ncases; i++ {
		s := 1 + rng.Intn(3)
		mn := []int64{0, 1, 2, 0, 1, 2, 3, 8, 10, 100, 1000}[rng.Intn(11)]
		mx := int64(1) << uint(3+rng.Intn(18))
		if mx < 2*mn+2 {
			mx = 2*mn + 2 + int64(rng.Intn(1000))
		}
		if rng.Intn(2) == 0 {
			mx += int64(rng.Intn(100))
		}
		if i%8 == 5 {
			// large configurations: values whose sub-bucket shifts do not fit 32 bits
			mx = int64(1)<<uint(31+rng.Intn(10)) + int64(rng.Intn(1000))
			if mn > 8 {
				mn = 1
			}
			s = 1 // one significant figure keeps the counts array (and the model's walk over it) small
		}
		n := rng.Intn(60)
		if thorough && rng.Intn(10) == 0 {
			n = rng.Intn(3000)
		}
		vs := genMultiset(rng, mx, n)
		// number of accepted values determines the ranks (computed with the library's own float expression)
		probe := hdrhist.New(mn, mx, s)
		for _, v := range vs {
			_ = probe.RecordValue(v)
		}
		qs := []float64{0.001, 1, 10, 25, 50, 75, 90, 99, 99.9, 100, 150}
		for k := 0; k < 6; k++ {
			qs = append(qs, rng.Float64()*100)
		}
		sort.Float64s(qs)
		ranks := make([]int64, len(qs))
		for k, q := range qs {
			ranks[k] = rankOf(q, probe.TotalCount())
		}
		line := fmt.Sprintf("hdr-stat %d %d %d | %s | %s", mn, mx, s, joinInts(vs), joinInts(ranks))
		qOfRank[line] = qs
		run(o, line)
		delete(qOfRank, line)

		if len(vs) > 0 {
			cut := rng.Intn(len(vs) + 1)
			mnA, mxA, sA := mn, mx, s
			switch rng.Intn(4) {
			case 0:
				mxA = mx / int64(2+rng.Intn(6))
				if mxA < 2*mn+2 {
					mxA = 2*mn + 2
				}
				sA = 1 + rng.Intn(3)
			case 1:
				// the same shape at another unit magnitude: lowest and highest scaled by a power of two
				k := uint(1 + rng.Intn(4))
				if mn == 0 {
					mnA, mxA = 1<<k, mx<<k
				} else {
					mnA, mxA = mn<<k, mx<<k
				}
				if rng.Intn(2) == 0 { // ... in the other direction
					run(o, fmt.Sprintf("hdr-merge %d %d %d | %s | %d %d %d | %s", mn, mx, s, joinInts(vs[:cut]), mnA, mxA, sA, joinInts(scaleInts(vs[cut:], int64(1)<<k))))
					mnA, mxA = mn, mx
				}
			}
			run(o, fmt.Sprintf("hdr-merge %d %d %d | %s | %d %d %d | %s", mnA, mxA, sA, joinInts(vs[:cut]), mn, mx, s, joinInts(vs[cut:])))
		}
		run(o, fmt.Sprintf("hdr-import %d %d %d | %s", mn, mx, s, joinInts(vs)))
		// RecordCorrectedValue (stalls of up to 400 intervals, intervals below / at / above the unit, zero and negative
		// intervals), RecordValues with counts, Reset in between
		{
			var ops []string
			unit := int64(1)
			for unit*2 <= mn {
				unit *= 2
			}
			for k := 0; k < 1+rng.Intn(6); k++ {
				switch rng.Intn(8) {
				case 0:
					ops = append(ops, "z")
				case 1:
					ops = append(ops, fmt.Sprintf("r%d", rng.Int63n(mx+mx/4+2)-1))
				case 2:
					ops = append(ops, fmt.Sprintf("n%d:%d", rng.Int63n(mx+mx/8+2), rng.Intn(6)))
				default:
					v := rng.Int63n(mx + mx/8 + 2)
					var ei int64
					switch rng.Intn(6) {
					case 0:
						ei = int64(rng.Intn(3)) - 1 // -1, 0, 1
					case 1:
						ei = 1 + rng.Int63n(unit) // at most the unit
					case 2:
						ei = unit + rng.Int63n(unit+1)
					default:
						ei = 1 + rng.Int63n(v+2)
					}
					if rng.Intn(5) == 0 {
						// a value beyond the counts array (refused) whose back-filled samples would be recordable
						v = 4*mx + rng.Int63n(mx+1)
						ei = v/int64(2+rng.Intn(5)) + 1
					}
					if ei > 0 && v/ei > 400 {
						ei = v/400 + 1
					}
					ops = append(ops, fmt.Sprintf("c%d:%d", v, ei))
				}
			}
			run(o, fmt.Sprintf("hdr-ops %d %d %d | %s", mn, mx, s, strings.Join(ops, " ")))
		}
	}
	nw := 150
	if thorough {
		nw = 4000
	}
	for i := 0; i < nw; i++ {
		n := 1 + rng.Intn(5)
		s := 1 + rng.Intn(3)
		mx := int64(1) << uint(4+rng.Intn(12))
		steps := 1 + rng.Intn(12)
		var ops []string
		for k := 0; k < steps; k++ {
			if rng.Intn(3) == 0 {
				ops = append(ops, "rot")
			} else {
				ops = append(ops, fmt.Sprintf("r%d", rng.Int63n(mx+2)))
			}
		}
		run(o, fmt.Sprintf("hdr-window %d | 1 %d %d | %s", n, mx, s, strings.Join(ops, " ")))
	}
	// steady-rate schedules: the same number of values in every window, one Merge per rotation, well past the ring size
	for n := 1; n <= 4; n++ {
		for c := 1; c <= 3; c++ {
			var ops []string
			v := int64(1)
			for round := 0; round < n+4; round++ {
				for k := 0; k < c; k++ {
					ops = append(ops, fmt.Sprintf("r%d", v))
					v += 7
				}
				ops = append(ops, "mrg", "rot")
			}
			ops = append(ops, "mrg")
			run(o, fmt.Sprintf("hdr-window %d | 1 4096 2 | %s", n, strings.Join(ops, " ")))
		}
	}
	for i := 0; i < nw/3; i++ {
		n := 1 + rng.Intn(4)
		var ops []string
		for k := 0; k < 6+rng.Intn(14); k++ {
			switch rng.Intn(4) {
			case 0:
				ops = append(ops, "rot")
			case 1:
				ops = append(ops, "mrg")
			default:
				ops = append(ops, fmt.Sprintf("r%d", rng.Int63n(1026)))
			}
		}
		run(o, fmt.Sprintf("hdr-window %d | 1 1024 %d | %s", n, 1+rng.Intn(3), strings.Join(ops, " ")))
	}
}
