/-
  Concurrency skeleton of the interval recorders (events/recorder_*_interval.go): any number of
  user goroutines calling recorder methods (each method: Lock; body; Unlock), and the ticker-driven
  flusher goroutines started by BeginIteration and cancelled by EndTest/Reset.
  `fixed = true` is the repaired flusher (unlocks before it returns on a cancelled context),
  `false` the pinned commit (finding F15).  The mutex is `owner`; a critical section is entered
  and left in separate steps, so other goroutines interleave while it is held.
-/
namespace Ftdc.RecorderTS

inductive Op where
  | inc (v : Int)      -- IncOperations etc.
  | begin              -- BeginIteration: starts the flusher if there is none
  | endTest            -- EndTest: persists, cancels the flusher, resets
  | reset              -- Reset: cancels the flusher, resets
  deriving DecidableEq, Repr

inductive UPc where
  | idle | waiting (op : Op) | inCS (op : Op)
  deriving DecidableEq, Repr

inductive FPc where
  | none | waitTick | waitLock | inCS | exited
  deriving DecidableEq, Repr

inductive Owner where
  | free | user (i : Nat) | flusher (j : Nat)
  deriving DecidableEq, Repr

structure St where
  fixed : Bool
  owner : Owner := .free
  upc : Nat → UPc := fun _ => .idle
  fpc : Nat → FPc := fun _ => .none
  fcancelled : Nat → Bool := fun _ => false
  nflush : Nat := 0                 -- flushers started so far
  canceler : Option Nat := none     -- `r.canceler`: the flusher EndTest would cancel
  counter : Int := 0                -- the point's counter
  persisted : Int := 0              -- what EndTest handed to the collector so far
  issued : Int := 0                 -- ghost: sum of the increments whose call has completed

/-- scheduler choices: a user goroutine starts a call, a user goroutine moves, a flusher moves -/
inductive Act where
  | call (i : Nat) (op : Op) | user (i : Nat) | flusher (j : Nat)

def upd {α : Type} (f : Nat → α) (i : Nat) (v : α) : Nat → α := fun k => if k = i then v else f k

def step (s : St) : Act → Option St
  | .call i op => if s.upc i = .idle then some { s with upc := upd s.upc i (.waiting op) } else none
  | .user i =>
    match s.upc i with
    | .idle => none
    | .waiting op =>
      if s.owner = .free then some { s with owner := .user i, upc := upd s.upc i (.inCS op) } else none
    | .inCS op =>
      let s1 : St := { s with owner := .free, upc := upd s.upc i .idle }
      match op with
      | .inc v => some { s1 with counter := s.counter + v, issued := s.issued + v }
      | .begin =>
        match s.canceler with
        | some _ => some s1
        | none => some { s1 with fpc := upd s.fpc s.nflush .waitTick, canceler := some s.nflush, nflush := s.nflush + 1 }
      | .endTest =>
        some { s1 with persisted := s.persisted + s.counter, counter := 0, canceler := none,
                       fcancelled := match s.canceler with | some j => upd s.fcancelled j true | none => s.fcancelled }
      | .reset =>
        -- Reset discards the counters: what was issued since the last EndTest is dropped by request
        some { s1 with issued := s.issued - s.counter, counter := 0, canceler := none,
                       fcancelled := match s.canceler with | some j => upd s.fcancelled j true | none => s.fcancelled }
  | .flusher j =>
    match s.fpc j with
    | .none => none
    | .exited => none
    | .waitTick =>   -- select { case <-ctx.Done(): return ; case <-ticker.C: }
      if s.fcancelled j then some { s with fpc := upd s.fpc j .exited } else some { s with fpc := upd s.fpc j .waitLock }
    | .waitLock =>
      if s.owner = .free then some { s with owner := .flusher j, fpc := upd s.fpc j .inCS } else none
    | .inCS =>
      if s.fcancelled j then
        -- `if ctx.Err() != nil { [r.Unlock()] ; return }`
        if s.fixed then some { s with owner := .free, fpc := upd s.fpc j .exited }
        else some { s with fpc := upd s.fpc j .exited }
      else some { s with owner := .free, fpc := upd s.fpc j .waitTick }   -- persist; r.Unlock()

def run (s : St) (sched : List Act) : St := sched.foldl (fun s a => (step s a).getD s) s

def init (fixed : Bool) : St := { fixed := fixed }

end Ftdc.RecorderTS
