import FtdcVerif.Model.ConcColl
/-! Inductive invariants of the synchronized and buffered collectors (C10). -/
namespace Ftdc.ConcColl

/-! ### synchronized collector -/

structure SInv (orig : Nat → List Nat) (s : SSt) : Prop where
  owner_cs : ∀ g, s.owner = some g → ∃ x, s.pc g = .inCS x
  cs_owner : ∀ g x, s.pc g = .inCS x → s.owner = some g
  log_acked : ∀ g, logOf s g = s.acked g
  conserve : ∀ g, orig g = s.acked g ++ (match s.pc g with | .idle => [] | .waiting x => [x] | .inCS x => [x]) ++ s.todo g

theorem sinit_inv (orig : Nat → List Nat) : SInv orig { todo := orig } := by
  constructor <;> simp [logOf]

theorem sstep_inv (orig : Nat → List Nat) (s s' : SSt) (g : Nat) (h : SInv orig s) (hs : sstep s g = some s') :
    SInv orig s' := by
  obtain ⟨h1, h2, h3, h4⟩ := h
  simp only [sstep] at hs
  cases hp : s.pc g with
  | idle =>
    simp only [hp] at hs
    cases ht : s.todo g with
    | nil => simp [ht] at hs
    | cons x rest =>
      simp only [ht, Option.some.injEq] at hs; subst hs
      refine ⟨?_, ?_, h3, ?_⟩
      · intro k hk
        obtain ⟨y, hy⟩ := h1 k hk
        have e : k ≠ g := by intro e; subst e; rw [hp] at hy; cases hy
        exact ⟨y, by simp [upd, e, hy]⟩
      · intro k y hk
        by_cases e : k = g
        · subst e; simp [upd] at hk
        · simp [upd, e] at hk; exact h2 k y hk
      · intro k
        by_cases e : k = g
        · subst e; have := h4 k; simp [hp, ht] at this; simp [upd, this]
        · simpa [upd, e] using h4 k
  | waiting x =>
    simp only [hp] at hs
    split at hs
    · rename_i hfree
      injection hs with hs; subst hs
      refine ⟨?_, ?_, h3, ?_⟩
      · intro k hk; injection hk with hk; subst hk; exact ⟨x, by simp [upd]⟩
      · intro k y hk
        by_cases e : k = g
        · subst e; rfl
        · simp [upd, e] at hk; have := h2 k y hk; rw [hfree] at this; cases this
      · intro k
        by_cases e : k = g
        · subst e; have := h4 k; simp [hp] at this; simp [upd, this]
        · simpa [upd, e] using h4 k
    · cases hs
  | inCS x =>
    simp only [hp, Option.some.injEq] at hs; subst hs
    have hown := h2 g x hp
    refine ⟨?_, ?_, ?_, ?_⟩
    · intro k hk; cases hk
    · intro k y hk
      by_cases e : k = g
      · subst e; simp [upd] at hk
      · simp [upd, e] at hk
        have := h2 k y hk; rw [hown] at this; injection this with this; exact absurd this.symm e
    · intro k
      by_cases e : k = g
      · subst e; simp [logOf, upd, List.filter_append] ; have := h3 k; simp [logOf] at this; rw [this]
      · have := h3 k
        simp only [logOf] at this ⊢
        simp [upd, e, List.filter_append, this]
        intro hc; exact absurd hc.symm e
    · intro k
      by_cases e : k = g
      · subst e; have := h4 k; simp [hp] at this; simp [upd, this]
      · simpa [upd, e] using h4 k

theorem srun_inv (orig : Nat → List Nat) (sched : List Nat) : ∀ s, SInv orig s → SInv orig (srun s sched) := by
  induction sched with
  | nil => intro s h; exact h
  | cons g gs ih =>
    intro s h
    simp only [srun, List.foldl_cons]
    cases hs : sstep s g with
    | none => simpa [srun] using ih s h
    | some s' => simpa [srun] using ih s' (sstep_inv orig s s' g h hs)


/-! ### buffered collector -/

structure BInv (s : BSt) : Prop where
  conserve : s.accepted = s.log ++ s.queue
  exited_cancelled : s.dpc = .exited → s.cancelled = true
  at_cancel_le : s.cancelled = true → s.acceptedAtCancel ≤ s.accepted.length
  delivered : s.dpc = .exited → s.acceptedAtCancel ≤ s.log.length
  not_cancelled : s.cancelled = false → s.dpc = .select

theorem binit_inv (cap : Nat) : BInv { cap := cap } := by
  constructor <;> simp

theorem bstep_inv (s s' : BSt) (a : BAct) (h : BInv s) (hs : bstep s a = some s') : BInv s' := by
  obtain ⟨h1, h2, h3, h4, h5⟩ := h
  cases a with
  | add x =>
    simp only [bstep] at hs
    split at hs
    · injection hs with hs; subst hs
      refine ⟨by simp [h1], h2, ?_, h4, h5⟩
      intro hc; have := h3 hc; simp; omega
    · cases hs
  | cancel =>
    simp only [bstep] at hs
    split at hs
    · cases hs
    · rename_i hnc
      injection hs with hs; subst hs
      have hsel := h5 (by simpa using hnc)
      refine ⟨h1, by intro _; rfl, by intro _; exact Nat.le_refl _, ?_, by intro hc; cases hc⟩
      intro he; rw [hsel] at he; cases he
  | drain =>
    simp only [bstep] at hs
    cases hd : s.dpc with
    | select =>
      simp only [hd] at hs
      cases hq : s.queue with
      | nil =>
        simp only [hq] at hs
        split at hs
        · rename_i hc
          injection hs with hs; subst hs
          refine ⟨by simp [h1, hq], by intro _; exact hc, h3, ?_, by intro hn; rw [hc] at hn; cases hn⟩
          intro _
          have := h3 hc
          rw [h1, hq] at this; simpa using this
        · cases hs
      | cons x rest =>
        simp only [hq, Option.some.injEq] at hs; subst hs
        refine ⟨by simp [h1, hq], ?_, h3, ?_, ?_⟩
        · intro he; cases he
        · intro he; cases he
        · intro hn; rfl
    | draining =>
      simp only [hd] at hs
      cases hq : s.queue with
      | nil => simp [hq] at hs
      | cons x rest =>
        simp only [hq, Option.some.injEq] at hs; subst hs
        refine ⟨by simp [h1, hq], ?_, h3, ?_, ?_⟩
        · intro he; cases he
        · intro he; cases he
        · intro hn; have := h5 hn; rw [hd] at this; cases this
    | exited => simp [hd] at hs

theorem brun_inv (sched : List BAct) : ∀ s, BInv s → BInv (brun s sched) := by
  induction sched with
  | nil => intro s h; exact h
  | cons a as ih =>
    intro s h
    simp only [brun, List.foldl_cons]
    cases hs : bstep s a with
    | none => simpa [brun] using ih s h
    | some s' => simpa [brun] using ih s' (bstep_inv s s' a h hs)

end Ftdc.ConcColl
