import FtdcVerif.Model.Events
import FtdcVerif.Lemmas.CodeTie
/-!
# C14 — event collectors persist running totals without losing any event's contribution

`totals` is the specification (the property text): the sum of all counters and timers of the
events so far, with the last event's time stamp, gauges and id (previous id plus one when zero).
The theorems hold for every event list (zero and non-zero ids, negative and extreme counters —
int64 arithmetic wraps on both sides — and nil events anywhere).
-/
namespace Ftdc.Props.C14
open Ftdc Ftdc.Events

/-- the specification: running totals after the non-nil events of a list, starting from `p` -/
def totalsFrom (p : Perf) : List Perf → Perf
  | [] => p
  | e :: es => totalsFrom (p.add e) es

/-- what must have been written after the events `e :: es` -/
def totals (e : Perf) (es : List Perf) : Perf := totalsFrom e es

theorem totalsFrom_snoc (p : Perf) (es : List Perf) (e : Perf) :
    totalsFrom p (es ++ [e]) = (totalsFrom p es).add e := by
  induction es generalizing p with
  | nil => rfl
  | cons x xs ih => simp [totalsFrom, ih]

/-- counters and timers of the totals are the sums, field by field -/
theorem totals_n (p : Perf) (es : List Perf) : (totalsFrom p es).n = es.foldl (fun a e => a + e.n) p.n := by
  induction es generalizing p with
  | nil => rfl
  | cons x xs ih => simp [totalsFrom, ih, Perf.add]

theorem totals_ops (p : Perf) (es : List Perf) : (totalsFrom p es).ops = es.foldl (fun a e => a + e.ops) p.ops := by
  induction es generalizing p with
  | nil => rfl
  | cons x xs ih => simp [totalsFrom, ih, Perf.add]

theorem totals_dur (p : Perf) (es : List Perf) : (totalsFrom p es).dur = es.foldl (fun a e => a + e.dur) p.dur := by
  induction es generalizing p with
  | nil => rfl
  | cons x xs ih => simp [totalsFrom, ih, Perf.add]

/-- time stamp and gauges of the totals are the last event's -/
theorem totals_last (p : Perf) (es : List Perf) (e : Perf) :
    let t := totalsFrom p (es ++ [e])
    t.ts = e.ts ∧ t.state = e.state ∧ t.workers = e.workers ∧ t.failed = e.failed ∧
    t.id = nextId (totalsFrom p es).id e.id := by
  simp [totalsFrom_snoc, Perf.add]

/-- **cumulative collector**: for the k-th non-nil event it writes the totals of events 1..k -/
theorem cumulative_kth (evs : List Ev) :
    basicRun none evs = (List.range (evs.filterMap id).length).map fun k =>
      match (evs.filterMap id) with
      | [] => default
      | e :: es => totals e (es.take k) := by
  -- generalised over the running state
  have gen : ∀ (evs : List Ev) (c : Perf),
      basicRun (some c) evs = (List.range (evs.filterMap id).length).map fun k =>
        totalsFrom c ((evs.filterMap id).take (k + 1)) := by
    intro evs
    induction evs with
    | nil => intro c; rfl
    | cons e es ih =>
      intro c
      cases e with
      | none => simpa [basicRun, basicStep] using ih c
      | some ev =>
        simp only [basicRun, basicStep, List.filterMap_cons, id, List.length_cons, List.range_succ_eq_map,
          List.map_cons, List.map_map]
        rw [ih (c.add ev)]
        simp [totalsFrom, Function.comp_def]
  induction evs with
  | nil => rfl
  | cons e es ih =>
    cases e with
    | none => simpa [basicRun, basicStep] using ih
    | some ev =>
      simp only [basicRun, basicStep, List.filterMap_cons, id, List.length_cons, List.range_succ_eq_map,
        List.map_cons, List.map_map]
      rw [gen es ev]
      simp [totals, totalsFrom, Function.comp_def]

/-- nil events are refused and change nothing -/
theorem nil_refused (cur : Option Perf) : basicStep cur none = (cur, none) := rfl
theorem nil_refused_sampling (s : Sampling) : samplingStep s none = (s, none, false) := rfl

/-- **pass-through collector**: every non-nil event is written unchanged -/
theorem passthrough_exact (evs : List Ev) : evs.filterMap passthroughStep = evs.filterMap id := rfl

/-- **sampling collector**: the running totals always accumulate (no event's contribution is
lost), and the event with (0-based) index `i` among the non-nil events is written iff `n ∣ i` -/
theorem sampling_step (s : Sampling) (ev : Perf) :
    let r := samplingStep s (some ev)
    r.1.cur = some (match s.cur with | none => ev | some c => c.add ev) ∧
    r.1.count = s.count + 1 ∧
    r.2.1 = (if s.count % s.sample = 0 then r.1.cur else none) := by
  cases h : s.cur <;> simp [samplingStep, h]

/-- the sampling collector's running total after any events equals the cumulative totals -/
theorem sampling_totals (evs : List Perf) (s : Sampling) (c : Perf) (hc : s.cur = some c) :
    ((evs.foldl (fun s e => (samplingStep s (some e)).1) s).cur) = some (totalsFrom c evs) ∧
    (evs.foldl (fun s e => (samplingStep s (some e)).1) s).count = s.count + evs.length := by
  induction evs generalizing s c with
  | nil => simp [hc, totalsFrom]
  | cons e es ih =>
    simp only [List.foldl_cons, totalsFrom, List.length_cons]
    have h1 : (samplingStep s (some e)).1.cur = some (c.add e) := by simp [samplingStep, hc]
    have := ih (samplingStep s (some e)).1 (c.add e) h1
    refine ⟨this.1, ?_⟩
    rw [this.2]; simp [samplingStep]; omega

/-- **marshal/unmarshal round trip**: every field survives (time stamp at millisecond precision) -/
theorem perf_roundtrip (p : Perf) : unmarshal {} (marshal p) = p := by
  cases p
  simp [marshal, unmarshal, unmarshalCounters, unmarshalTimers, unmarshalGauges, i64Of,
    k_ts, k_id, k_counters, k_timers, k_gauges, k_n, k_ops, k_size, k_errors, k_dur, k_total,
    k_state, k_workers, k_failed]

/-- finding F13, the unrepaired decoder looked the operations counter up under "opts" -/
theorem opts_is_not_ops : ([111, 112, 116, 115] : Bytes) ≠ k_ops := by decide

/-! non-vacuity -/
example : basicRun none [some { n := 1 }, none, some { n := 2 }, some { n := 3, id := 7 }] =
    [{ n := 1 }, { n := 3, id := 1 }, { n := 6, id := 7 }] := by decide

/-! ### collectors whose writes depend on a random draw or on the clock -/

/-- the running totals after every non-nil event (what a cumulative collector writes) -/
def allTotals (cur : Option Perf) (es : List Ev) : List Perf := basicRun cur es

/-- keep the entries whose gate is open (gates used up = closed) -/
def gateFilter : List Bool → List Perf → List Perf
  | _, [] => []
  | gs, p :: ps => (if gs.headD false then [p] else []) ++ gateFilter gs.tail ps

/-- **random-sampling and interval collectors, for every outcome of the random generator and every timing**: whatever
the gates decide, what is written is a selection - in order - of the running totals of ALL events so far: an event
that is not written still contributes to every later sample -/
theorem gated_written_are_totals (gates : List Bool) (es : List Ev) (cur : Option Perf) :
    gatedRun cur gates es = gateFilter gates (basicRun cur es) := by
  induction es generalizing cur gates with
  | nil => simp [gatedRun, basicRun, gateFilter]
  | cons e es ih =>
    cases e with
    | none => simp [gatedRun, basicRun, basicStep, ih]
    | some ev =>
      cases cur with
      | none => simp [gatedRun, basicRun, basicStep, gateFilter, ih]
      | some c => simp [gatedRun, basicRun, basicStep, gateFilter, ih]

/-- with every gate open the gated collectors are the cumulative collector; with none, nothing is written -/
theorem gated_all_open (es : List Ev) : gatedRun none (List.replicate es.length true) es = basicRun none es := by
  rw [gated_written_are_totals]
  have : ∀ (n : Nat) (ps : List Perf), ps.length ≤ n → gateFilter (List.replicate n true) ps = ps := by
    intro n
    induction n with
    | zero => intro ps h; cases ps with
      | nil => rfl
      | cons _ _ => simp at h
    | succ k ih => intro ps h; cases ps with
      | nil => rfl
      | cons p ps => simp [gateFilter, List.replicate_succ, ih ps (by simpa using h)]
  apply this
  -- at most one sample per event
  have hl : ∀ (es : List Ev) (cur : Option Perf), (basicRun cur es).length ≤ es.length := by
    intro es
    induction es with
    | nil => intro cur; simp [basicRun]
    | cons e es ih =>
      intro cur
      cases e with
      | none => simp [basicRun, basicStep]; exact Nat.le_succ_of_le (ih cur)
      | some ev => cases cur <;> simp [basicRun, basicStep] <;> exact ih _
  exact hl es none

/-! ### The Go text itself (regenerated)

`Ftdc.Gen.Events.Add` (Gen/Code.lean) is translated from `Performance.Add` in events/performance.go on every
run of this check.  Run on the integers a model value stands for and reduced modulo 2^64 (Go's `int64`
wrap-around), it is the model's `Perf.add`, and the event handed in gets back the id it was given. -/
theorem go_performance_add_is_model (p e : Perf) :
    CodeTie.absP (Gen.Events.Add (CodeTie.concP p) (CodeTie.concP e)).1 = Perf.add p e ∧
    CodeTie.absP (Gen.Events.Add (CodeTie.concP p) (CodeTie.concP e)).2 = { e with id := nextId p.id e.id } :=
  CodeTie.Add_tie p e

/-- what a Go `Performance` value holds after an ideal-integer computation: every field reduced to `int64` -/
def wrapP (g : Gen.Events.Performance) : Gen.Events.Performance := CodeTie.concP (CodeTie.absP g)

theorem abs_conc (p : Perf) : CodeTie.absP (CodeTie.concP p) = p := by
  simp [CodeTie.absP, CodeTie.concP, BitVec.ofInt_toInt]

/-- the running totals computed by folding the translated Go `Add` over any list of events (each step's
result stored back into `int64` fields) are the specification's -/
theorem go_running_totals (p : Perf) (es : List Perf) :
    es.foldl (fun acc e => wrapP (Gen.Events.Add acc (CodeTie.concP e)).1) (CodeTie.concP p) =
      CodeTie.concP (totalsFrom p es) := by
  induction es generalizing p with
  | nil => rfl
  | cons e es ih =>
    simp only [List.foldl_cons, totalsFrom]
    have h1 : wrapP (Gen.Events.Add (CodeTie.concP p) (CodeTie.concP e)).1 = CodeTie.concP (p.add e) := by
      unfold wrapP; rw [(CodeTie.Add_tie p e).1]
    rw [h1]
    exact ih (p.add e)

/-- **a sample the wrapped collector refuses still counts** (seeded change agent8-C14): for the cumulative collector a refusal
of the n-th sample is a closed gate at that position — what is persisted is the running totals of ALL events with the n-th left
out, so every later sample still contains the refused event's contribution -/
theorem refused_sample_still_counts (n : Nat) (es : List Ev) :
    gatedRun none (List.replicate n true ++ [false] ++ List.replicate es.length true) es
      = gateFilter (List.replicate n true ++ [false] ++ List.replicate es.length true) (basicRun none es) :=
  gated_written_are_totals _ es none

end Ftdc.Props.C14
