/-
  Hand-written support for the generated code (Gen/Code.lean): the Go operations that Lean's `Int` lacks.
  `|` and `&` are the two's-complement operations on 64 bits; `a[i]` is total (0 outside the bounds; `a[i] = v` outside the bounds changes nothing) - Go panics there.
-/
namespace Ftdc.Gen.Go

def or (a b : Int) : Int := (BitVec.ofInt 64 a ||| BitVec.ofInt 64 b).toInt
def and (a b : Int) : Int := (BitVec.ofInt 64 a &&& BitVec.ofInt 64 b).toInt
/-- reduction to 32 bits, two's complement: what an `int32` holds after arithmetic or a narrowing conversion -/
def w32 (x : Int) : Int := (BitVec.ofInt 32 x).toInt

def index (l : List Int) (i : Int) : Int := if i < 0 then 0 else l.getD i.toNat 0
def set (l : List Int) (i : Int) (v : Int) : List Int := if i < 0 then l else l.set i.toNat v

end Ftdc.Gen.Go
