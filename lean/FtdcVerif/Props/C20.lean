import FtdcVerif.Model.Genny
/-!
# C20 — Genny translation emits one sample per second drawn only from actors' own data

For every list of actors (any number, any spans, any chunking of their streams): exactly one
output sample per second of the overall span with start stamps one second apart; one
sub-document per actor in input order; every actor's values are zeros or the values of one of
its own input samples.  The chunk bound is the streaming collector's capacity 300 (C07).
-/
namespace Ftdc.Props.C20
open Ftdc.Genny

/-! ### shape of the output -/

theorem stepSecond_shape (t : Int) (actors : List Actor) :
    (stepSecond t actors).2.start = t * 1000 ∧ (stepSecond t actors).1.length = actors.length ∧
    (stepSecond t actors).2.actors.length = actors.length := by
  simp [stepSecond]

/-- **exactly one sample for each second of the span** -/
theorem one_sample_per_second : ∀ (fuel : Nat) (t stop : Int) (as : List Actor),
    (stop - t).toNat ≤ fuel → (loopSeconds fuel t stop as).length = (stop - t).toNat := by
  intro fuel
  induction fuel with
  | zero => intro t stop as h; simp [loopSeconds]; omega
  | succ f ih =>
    intro t stop as h
    simp only [loopSeconds]
    by_cases hlt : t < stop
    · simp only [hlt, ite_true, List.length_cons]
      rw [ih (t + 1) stop _ (by omega)]; omega
    · simp only [hlt, ite_false, List.length_nil]; omega

/-- **start stamps strictly increasing, one second apart, from the workload start** -/
theorem starts_one_second_apart : ∀ (fuel : Nat) (t stop : Int) (as : List Actor) (i : Nat),
    i < (loopSeconds fuel t stop as).length →
    ((loopSeconds fuel t stop as).getD i ⟨0, []⟩).start = (t + i) * 1000 := by
  intro fuel
  induction fuel with
  | zero => intro t stop as i h; simp [loopSeconds] at h
  | succ f ih =>
    intro t stop as i h
    simp only [loopSeconds] at h ⊢
    by_cases hlt : t < stop
    · simp only [hlt, ite_true] at h ⊢
      cases i with
      | zero => simp [stepSecond]
      | succ j =>
        simp only [List.length_cons] at h
        have := ih (t + 1) stop (stepSecond t as).1 j (by omega)
        simp only [List.getD_cons_succ]
        rw [this]; push_cast; congr 1; omega
    · simp [hlt] at h

/-- every step emits one sub-document per actor -/
theorem one_subdocument_per_actor : ∀ (fuel : Nat) (t stop : Int) (as : List Actor),
    ∀ o ∈ loopSeconds fuel t stop as, o.actors.length = as.length := by
  intro fuel
  induction fuel with
  | zero => intro t stop as o h; simp [loopSeconds] at h
  | succ f ih =>
    intro t stop as o h
    simp only [loopSeconds] at h
    by_cases hlt : t < stop
    · simp only [hlt, ite_true, List.mem_cons] at h
      rcases h with rfl | h
      · exact (stepSecond_shape t as).2.2
      · have := ih (t + 1) stop (stepSecond t as).1 o h
        rw [this, (stepSecond_shape t as).2.1]
    · simp [hlt] at h

/-! ### names: sub-documents are in input order -/

theorem nextWindow_name : ∀ (fuel : Nat) (a : Actor), (nextWindow fuel a).1.name = a.name := by
  intro fuel
  induction fuel with
  | zero => intro a; rfl
  | succ f ih =>
    intro a
    have he : a.ensureChunk.name = a.name := by
      unfold Actor.ensureChunk; split <;> rfl
    simp only [nextWindow]
    split
    · exact he
    · split
      · simpa [Actor.pick] using he
      · split
        · rw [ih]; simpa [Actor.advance] using he
        · exact he

theorem stepActor_name (t : Int) (a : Actor) :
    (stepActor t a).1.name = a.name ∧ (stepActor t a).2.1 = a.name := by
  unfold stepActor
  split
  · have hn := nextWindow_name (a.rest.length + 2) a
    split
    · rename_i a' vals heq; rw [heq] at hn; exact ⟨hn, rfl⟩
    · rename_i a' heq; rw [heq] at hn; exact ⟨hn, rfl⟩
  · exact ⟨rfl, rfl⟩

theorem stepSecond_names (t : Int) (as : List Actor) :
    (stepSecond t as).2.actors.map (·.1) = as.map (·.name) ∧
    (stepSecond t as).1.map (·.name) = as.map (·.name) := by
  simp only [stepSecond, List.map_map]
  constructor <;> (apply List.map_congr_left; intro a _; simp [Function.comp, stepActor_name])

/-- **one sub-document per actor, in input order, in every output sample** -/
theorem subdocuments_in_input_order : ∀ (fuel : Nat) (t stop : Int) (as : List Actor),
    ∀ o ∈ loopSeconds fuel t stop as, o.actors.map (·.1) = as.map (·.name) := by
  intro fuel
  induction fuel with
  | zero => intro t stop as o h; simp [loopSeconds] at h
  | succ f ih =>
    intro t stop as o h
    simp only [loopSeconds] at h
    by_cases hlt : t < stop
    · simp only [hlt, ite_true, List.mem_cons] at h
      rcases h with rfl | h
      · exact (stepSecond_names t as).1
      · rw [ih (t + 1) stop (stepSecond t as).1 o h, (stepSecond_names t as).2]
    · simp [hlt] at h

/-! ### values: zeros or one of the actor's own samples -/

/-- all samples an actor can still deliver -/
def pool (a : Actor) : List Sample := (a.cur.toList ++ a.rest).flatten

/-- the values an actor may legitimately emit: zeros, or the values of one of its own samples -/
def Legit (p : List Sample) (vals : List Int) : Prop :=
  vals = List.replicate 8 0 ∨ ∃ s ∈ p, s.vals = vals

theorem findWindow_go_mem (c : List Sample) (prev : Int) : ∀ (i : Nat) (r : Nat × Sample),
    findWindow.go prev i c = some r → r.2 ∈ c := by
  induction c with
  | nil => intro i r h; simp [findWindow.go] at h
  | cons s rest ih =>
    intro i r h
    simp only [findWindow.go] at h
    split at h
    · injection h with h; subst h; simp
    · exact List.mem_cons_of_mem _ (ih (i + 1) r h)

theorem findWindow_mem (c : GChunk) (from_ : Nat) (prev : Int) (r : Nat × Sample)
    (h : findWindow c from_ prev = some r) : r.2 ∈ c :=
  List.mem_of_mem_drop (findWindow_go_mem _ prev from_ r h)

theorem ensureChunk_pool (a : Actor) : pool a.ensureChunk = pool a := by
  unfold Actor.ensureChunk pool
  split <;> simp_all

/-- what `translateAtNextWindow` returns is the values of a sample of the actor's own pool, and
the pool it leaves behind is a suffix (so later picks are still the actor's own samples) -/
theorem nextWindow_own : ∀ (fuel : Nat) (a : Actor) (vals : List Int),
    (nextWindow fuel a).2 = some vals → ∃ s ∈ pool a, s.vals = vals := by
  intro fuel
  induction fuel with
  | zero => intro a vals h; simp [nextWindow] at h
  | succ f ih =>
    intro a vals h
    simp only [nextWindow] at h
    rw [← ensureChunk_pool a]
    generalize a.ensureChunk = b at h ⊢
    split at h
    · simp at h
    · rename_i c hc
      split at h
      · rename_i i s hf
        simp only [Option.some.injEq] at h
        refine ⟨s, ?_, h⟩
        have := findWindow_mem c _ _ (i, s) hf
        simp only [pool, hc, Option.toList_some, List.singleton_append, List.flatten_cons, List.mem_append]
        exact Or.inl this
      · split at h
        · rename_i c' r hr
          obtain ⟨s, hs, hv⟩ := ih (b.advance c' r) vals h
          refine ⟨s, ?_, hv⟩
          simp only [pool, Actor.advance, Option.toList_some, List.singleton_append, List.flatten_cons,
            List.mem_append] at hs
          simp only [pool, hc, hr, Option.toList_some, List.singleton_append, List.flatten_cons, List.mem_append]
          rcases hs with hs | hs
          · exact Or.inr (Or.inl hs)
          · exact Or.inr (Or.inr hs)
        · simp at h

/-! ### the selected sample is the first one of a new second -/

theorem findWindow_go_first (prev : Int) : ∀ (c : List Sample) (i : Nat) (r : Nat × Sample),
    findWindow.go prev i c = some r →
      i ≤ r.1 ∧ c[r.1 - i]? = some r.2 ∧ ceilSec r.2.ts ≠ prev ∧
      ∀ j, j < r.1 - i → ∃ s, c[j]? = some s ∧ ceilSec s.ts = prev := by
  intro c
  induction c with
  | nil => intro i r h; simp [findWindow.go] at h
  | cons s rest ih =>
    intro i r h
    simp only [findWindow.go] at h
    split at h
    · rename_i hne
      injection h with h; subst h
      exact ⟨Nat.le_refl _, by simp, hne, by intro j hj; simp at hj⟩
    · rename_i heq
      obtain ⟨h1, h2, h3, h4⟩ := ih (i + 1) r h
      refine ⟨by omega, ?_, h3, ?_⟩
      · have e : r.1 - i = (r.1 - (i + 1)) + 1 := by omega
        rw [e, List.getElem?_cons_succ]; exact h2
      · intro j hj
        cases j with
        | zero => exact ⟨s, by simp, by simpa using heq⟩
        | succ j =>
          obtain ⟨s', e1, e2⟩ := h4 j (by omega)
          exact ⟨s', by simpa using e1, e2⟩

/-- **`findWindow` selects the first sample, at or after the previous position, whose wall-clock
second differs from the previous one**: every sample it skips lies in the previous second -/
theorem findWindow_first (c : GChunk) (from_ : Nat) (prev : Int) (i : Nat) (s : Sample)
    (h : findWindow c from_ prev = some (i, s)) :
    from_ ≤ i ∧ c[i]? = some s ∧ ceilSec s.ts ≠ prev ∧
    ∀ j, from_ ≤ j → j < i → ∃ s', c[j]? = some s' ∧ ceilSec s'.ts = prev := by
  obtain ⟨h1, h2, h3, h4⟩ := findWindow_go_first prev (c.drop from_) from_ (i, s) h
  simp only at h1 h2 h3 h4
  refine ⟨h1, ?_, h3, ?_⟩
  · rw [List.getElem?_drop] at h2
    have : from_ + (i - from_) = i := by omega
    rw [this] at h2; exact h2
  · intro j hj1 hj2
    obtain ⟨s', e1, e2⟩ := h4 (j - from_) (by omega)
    rw [List.getElem?_drop] at e1
    have : from_ + (j - from_) = j := by omega
    rw [this] at e1
    exact ⟨s', e1, e2⟩

/-! ### selected positions never move backwards -/

/-- lexicographic order on (chunk number, index) -/
def PosLe (a b : Nat × Nat) : Prop := a.1 < b.1 ∨ (a.1 = b.1 ∧ a.2 ≤ b.2)

/-- the recorded positions are non-decreasing, and the last one is not ahead of the cursor -/
def Mono (a : Actor) : Prop :=
  a.picks.Pairwise PosLe ∧ ∀ p ∈ a.picks, PosLe p (a.chunkNo, a.prevIdx)

theorem posLe_trans {a b c : Nat × Nat} (h1 : PosLe a b) (h2 : PosLe b c) : PosLe a c := by
  unfold PosLe at *; omega

theorem mono_ensureChunk (a : Actor) (h : Mono a) : Mono a.ensureChunk := by
  unfold Actor.ensureChunk
  split <;> exact h

theorem mono_pick (a : Actor) (i : Nat) (s : Sample) (h : Mono a) (hi : a.prevIdx ≤ i) : Mono (a.pick i s) := by
  obtain ⟨h1, h2⟩ := h
  have hle : ∀ p ∈ a.picks, PosLe p (a.chunkNo, i) := by
    intro p hp; exact posLe_trans (h2 p hp) (by unfold PosLe; simp; omega)
  refine ⟨?_, ?_⟩
  · simp only [Actor.pick]
    rw [List.pairwise_append]
    exact ⟨h1, by simp, by intro x hx y hy; simp at hy; subst hy; exact hle x hx⟩
  · intro p hp
    simp only [Actor.pick, List.mem_append, List.mem_cons, List.not_mem_nil, or_false] at hp ⊢
    rcases hp with hp | rfl
    · exact hle p hp
    · unfold PosLe; simp

theorem mono_advance (a : Actor) (c : GChunk) (r : List GChunk) (h : Mono a) : Mono (a.advance c r) := by
  obtain ⟨h1, h2⟩ := h
  refine ⟨h1, ?_⟩
  intro p hp
  have := h2 p hp
  simp only [Actor.advance]
  unfold PosLe at *; simp at *; omega

theorem mono_nextWindow : ∀ (fuel : Nat) (a : Actor), Mono a → Mono (nextWindow fuel a).1 := by
  intro fuel
  induction fuel with
  | zero => intro a h; exact h
  | succ f ih =>
    intro a h
    have hb := mono_ensureChunk a h
    simp only [nextWindow]
    generalize a.ensureChunk = b at hb ⊢
    split
    · exact hb
    · rename_i c hc
      split
      · rename_i i s hf
        exact mono_pick b i s hb (findWindow_first c _ _ i s hf).1
      · split
        · rename_i c' r hr
          exact ih _ (mono_advance b c' r hb)
        · exact hb

theorem mono_stepActor (t : Int) (a : Actor) (h : Mono a) : Mono (stepActor t a).1 := by
  unfold stepActor
  split
  · have := mono_nextWindow (a.rest.length + 2) a h
    split <;> simp_all
  · exact h

theorem mono_stepSecond (t : Int) (as : List Actor) (h : ∀ a ∈ as, Mono a) :
    ∀ a ∈ (stepSecond t as).1, Mono a := by
  intro a ha
  simp only [stepSecond, List.map_map, List.mem_map, Function.comp] at ha
  obtain ⟨a0, h0, rfl⟩ := ha
  exact mono_stepActor t a0 (h a0 h0)

/-- the actor states after `k` seconds of the main loop (what `loopSeconds` threads through) -/
def statesAfter : Nat → Int → List Actor → List Actor
  | 0, _, as => as
  | k + 1, t, as => statesAfter k (t + 1) (stepSecond t as).1

/-- **Selected positions never move backwards**: after any number of seconds of the main loop the
positions (chunk number, index) every actor has selected so far are non-decreasing, for actors
that start with nothing selected. -/
theorem picks_never_move_backwards (as : List Actor) (h0 : ∀ a ∈ as, a.picks = []) :
    ∀ (k : Nat) (t : Int), ∀ a ∈ statesAfter k t as, a.picks.Pairwise PosLe := by
  have hm : ∀ a ∈ as, Mono a := by
    intro a ha; simp [Mono, h0 a ha]
  intro k
  suffices ∀ (as : List Actor), (∀ a ∈ as, Mono a) → ∀ t, ∀ a ∈ statesAfter k t as, Mono a from
    fun t a ha => (this as hm t a ha).1
  induction k with
  | zero => intro as h t a ha; exact h a ha
  | succ k ih =>
    intro as h t a ha
    exact ih _ (mono_stepSecond t as h) (t + 1) a ha

/-- `loopSeconds` is the output of exactly those states -/
theorem loopSeconds_states : ∀ (fuel : Nat) (t stop : Int) (as : List Actor) (k : Nat),
    k < (loopSeconds fuel t stop as).length →
    (loopSeconds fuel t stop as)[k]? = some (stepSecond (t + k) (statesAfter k t as)).2 := by
  intro fuel
  induction fuel with
  | zero => intro t stop as k hk; simp [loopSeconds] at hk
  | succ f ih =>
    intro t stop as k hk
    simp only [loopSeconds] at hk ⊢
    split at hk
    · rename_i hlt
      rw [if_pos hlt]
      cases k with
      | zero => simp [statesAfter]
      | succ k =>
        simp only [List.length_cons] at hk
        have := ih (t + 1) stop (stepSecond t as).1 k (by omega)
        simp only [List.getElem?_cons_succ, statesAfter]
        rw [this]
        congr 3; push_cast; omega
    · simp at hk

/-! non-vacuity -/
example : (translate [{ name := "a", rest := [[⟨1500, [1,1,1,0,5,5,1,0]⟩, ⟨2500, [2,2,2,0,9,9,1,0]⟩]],
                        startTime := 2, endTime := 4 }]).length = 2 := by decide

end Ftdc.Props.C20
