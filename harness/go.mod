module verifharness

go 1.20

require (
	github.com/evergreen-ci/birch v0.0.0-20191213201306-f4dae6f450a2
	github.com/mongodb/ftdc v0.0.0
	go.mongodb.org/mongo-driver v1.11.1
)

require github.com/pkg/errors v0.9.1 // indirect

replace github.com/mongodb/ftdc => /repo
