import FtdcVerif.Lemmas.Reader
/-!
# C04 — readers are total on arbitrary bytes; corruption is reported

The reader model (`Model/Reader.lean`) is a total function: Lean's termination checker is the
no-hang argument for the sequential core, and there is no `panic` outcome because every failure
of the (repaired) Go code is an error return — including a recovered panic of the bson library,
which the strict validator makes unreachable on the model's side.  What remains to prove is that
every class of damage the property lists yields `err ≠ none`, and that chunks wholly before the
damage are delivered.  Quantifiers: all byte strings, all `inflate` functions.
-/
namespace Ftdc.Props.C04
open Ftdc

/-- Refinement: on a concatenation of framed documents the reader is a sequential fold. -/
theorem reader_refines_fold (inflate : Inflate) (dbs : List Bytes) (h : ∀ db ∈ dbs, WellFramed db) :
    readAll inflate dbs.flatten = (processDocs inflate (.running none []) dbs).result :=
  readAll_framed inflate dbs h

/-- A stream cut inside a document (or with a size word < 5 or negative) is reported:
`Err()` is non-nil after `Next()` returned false — for every intact prefix and every cut. -/
theorem cut_stream_reports_error (inflate : Inflate) (dbs : List Bytes) (cut : Bytes)
    (h : ∀ db ∈ dbs, WellFramed db) (hc : Incomplete cut) :
    (readAll inflate (dbs.flatten ++ cut)).err ≠ none := by
  unfold readAll
  have hlen : dbs.length < (dbs.flatten ++ cut).length + 1 := by
    have := flatten_length_ge dbs h; simp only [List.length_append]; omega
  rw [readAllAux_framed inflate dbs _ none [] cut h hlen]
  cases processDocs inflate (.running none []) dbs with
  | failed acc e => simp
  | running md acc =>
    simp only
    have hne : cut ≠ [] := hc.1
    have hcl : 0 < cut.length := List.length_pos_iff.mpr hne
    have hfl := flatten_length_ge dbs h
    obtain ⟨k, hk⟩ : ∃ k, (dbs.flatten ++ cut).length + 1 - dbs.length = k + 1 :=
      ⟨(dbs.flatten ++ cut).length - dbs.length, by simp only [List.length_append]; omega⟩
    rw [hk]
    simp [readAllAux, frame_incomplete hc]

/-- Every chunk that lies wholly before the damage is delivered intact: whatever follows the
framed documents `dbs`, the chunks they decode to are a prefix of what the reader delivers. -/
theorem intact_prefix_delivered (inflate : Inflate) (dbs : List Bytes) (tail : Bytes)
    (h : ∀ db ∈ dbs, WellFramed db) :
    (readAll inflate dbs.flatten).chunks <+: (readAll inflate (dbs.flatten ++ tail)).chunks := by
  rw [readAll_framed inflate dbs h]
  unfold readAll
  have hlen : dbs.length < (dbs.flatten ++ tail).length + 1 := by
    have := flatten_length_ge dbs h; simp only [List.length_append]; omega
  rw [readAllAux_framed inflate dbs _ none [] tail h hlen]
  cases processDocs inflate (.running none []) dbs with
  | failed acc e => simp [RState.result]
  | running md acc => exact readAllAux_chunks_prefix inflate _ tail md acc

/-- Delivered chunks are never retracted when more input follows. -/
theorem delivered_chunks_monotone (inflate : Inflate) (s : RState) (dbs : List Bytes) :
    s.chunks <+: (processDocs inflate s dbs).chunks :=
  processDocs_chunks_prefix inflate dbs s

/-- Once the reader has failed it stays failed (the error is stable). -/
theorem error_is_sticky (inflate : Inflate) (acc : List Chunk) (e : ReadErr) (dbs : List Bytes) :
    processDocs inflate (.failed acc e) dbs = .failed acc e :=
  processDocs_failed inflate acc e dbs

/-- A document that does not parse as BSON ends the iteration with an error. -/
theorem malformed_document_reports_error (inflate : Inflate) (md : Option BDoc) (acc : List Chunk)
    (db : Bytes) (h : parseDoc db = none) :
    stepDoc inflate (.running md acc) db = .failed acc .frame := by
  simp [stepDoc, h]

/-- A metric chunk (`type` numerically 1) whose payload field is missing, not binary, shorter
than its 4-byte header, not inflatable, inconsistent (bad reference document, metric count that
differs from the reference document, truncated varints) or whose compressed stream ends in an
error is reported. -/
theorem damaged_chunk_reports_error (inflate : Inflate) (doc : BDoc) (md : Option BDoc)
    (h0 : isNum 0 (lookupLast keyType doc) = false) (h1 : isNum 1 (lookupLast keyType doc) = true)
    (hd : match lookupLast keyData doc with
      | none => True
      | some (.other 0x05 raw) =>
          (binaryPayload raw).length < 4 ∨
          match inflate ((binaryPayload raw).drop 4) with
          | none => True
          | some (p, clean) => (∃ e, decodePayload p = .error e) ∨ clean = false
      | some _ => True) :
    ∃ e, processDoc inflate doc md = .error e := by
  unfold processDoc
  simp only [h0, h1, Bool.false_eq_true, ite_false, Bool.not_true]
  split
  · exact ⟨_, rfl⟩
  · rename_i raw heq
    simp only [heq] at hd
    by_cases hs : (binaryPayload raw).length < 4
    · simp only [hs, ite_true]; exact ⟨_, rfl⟩
    · simp only [hs, ite_false, false_or] at hd ⊢
      split
      · exact ⟨_, rfl⟩
      · rename_i p clean hinf
        simp only [hinf] at hd
        rcases hd with ⟨e, he⟩ | hc
        · simp only [he]; exact ⟨_, rfl⟩
        · subst hc
          split
          · exact ⟨_, rfl⟩
          · simp
  · exact ⟨_, rfl⟩

/-- Payload level: a metric count that differs from the reference document is an error. -/
theorem count_mismatch_is_error (db rest hd body : Bytes) (ref : BDoc) (p : Bytes)
    (hp : p = db ++ rest) (hw : WellFramed db) (hr : parseDoc db = some ref)
    (hh : takeN 8 rest = some (hd, body)) (hc : rdLe (hd.take 4) ≠ (metricsOf ref).length) :
    decodePayload p = .error .count := by
  subst hp
  obtain ⟨h5, h31, hsz⟩ := hw
  have h4 : takeN 4 (db ++ rest) = some ((db ++ rest).take 4, (db ++ rest).drop 4) := by
    simp [takeN]; omega
  have ht : (db ++ rest).take 4 = db.take 4 := by
    rw [List.take_append_of_le_length (by omega)]
  unfold decodePayload
  simp only [h4, ht, hsz]
  have : ¬ (db.length < 5 ∨ db.length ≥ 2 ^ 31) := by omega
  simp only [this, ite_false, takeN_append, hr, hh, hc, ne_eq, not_false_eq_true, ite_true]

/-! Non-vacuity -/
example : WellFramed [5, 0, 0, 0, 0] := by unfold WellFramed; decide
example : Incomplete [5, 0, 0, 0] := by unfold Incomplete; decide
example : Incomplete [7, 0] := by unfold Incomplete; decide
example : Incomplete [3, 0, 0, 0, 0] := by unfold Incomplete; decide

end Ftdc.Props.C04
