/-
  The goroutine pipeline of `ReadChunks` (iterator_chunk.go, read.go) as a small-step
  transition system: D = `readDiagnostic` + its wrapper goroutine, C = `readChunks` + its wrapper,
  U = the consumer calling `Next` and then `Err`.  Channels: `ipc` (unbuffered: a hand-off is one
  step, enabled only when the receiver waits), `pipe` (capacity 2).  The catcher is two flags.
  The ORDER of "record the error" and "close the channel" in the wrappers is program text:
  `addFirst = true` is the repaired code, `false` the pinned commit (finding F6).
  `cancelled` models `ctx.Done()`, which the two `select`s listen to.
-/
namespace Ftdc.Pipeline

/-- what the input holds next: a document that decodes, one that does not (error in
`readChunks`), or a framing error at this point (error in `readDiagnostic`) -/
inductive Item where
  | good | bad | cut
  deriving DecidableEq, Repr

inductive DPc where
  | read | sending (x : Item) | adding | closing | done
  deriving DecidableEq, Repr

inductive CPc where
  | recv | decode (x : Item) | send | adding | closing | done
  deriving DecidableEq, Repr

inductive UPc where
  | next | done
  deriving DecidableEq, Repr

inductive Pid where
  | d | c | u | cancel
  deriving DecidableEq, Repr

structure St where
  addFirst : Bool
  items : List Item          -- input not yet read by D
  dpc : DPc := .read
  cpc : CPc := .recv
  upc : UPc := .next
  dFailed : Bool := false     -- D hit the framing error
  cFailed : Bool := false     -- C hit a decoding error
  dErrIn : Bool := false      -- D's error is in the catcher
  cErrIn : Bool := false
  ipcClosed : Bool := false
  pipe : Nat := 0             -- chunks buffered in `pipe` (capacity 2)
  pipeClosed : Bool := false
  cancelled : Bool := false
  delivered : Nat := 0        -- chunks the consumer got
  sawFalse : Bool := false    -- `Next()` returned false
  errSeen : Bool := false     -- what `Err() != nil` said right after that
  deriving DecidableEq, Repr

def pipeCap : Nat := 2

/-- one step of process `p`; `none` = blocked or terminated -/
def step (s : St) : Pid → Option St
  | .cancel => if s.cancelled then none else some { s with cancelled := true }
  | .d =>
    match s.dpc with
    | .read =>
      match s.items with
      | [] => some { s with dpc := if s.addFirst then .adding else .closing }     -- clean EOF: returns nil
      | .cut :: _ => some { s with dFailed := true, items := [], dpc := if s.addFirst then .adding else .closing }
      | x :: rest => some { s with items := rest, dpc := .sending x }
    | .sending x =>
      -- select { case ch <- doc ; case <-ctx.Done() }
      if s.cpc = .recv then some { s with dpc := .read, cpc := .decode x }
      else if s.cancelled then some { s with dpc := if s.addFirst then .adding else .closing }
      else none
    | .adding =>      -- iter.catcher.Add(err)
      some { s with dErrIn := s.dFailed, dpc := if s.addFirst then .closing else .done }
    | .closing =>     -- close(ipc)
      some { s with ipcClosed := true, dpc := if s.addFirst then .done else .adding }
    | .done => none
  | .c =>
    match s.cpc with
    | .recv => if s.ipcClosed then some { s with cpc := if s.addFirst then .adding else .closing } else none
    | .decode .good => some { s with cpc := .send }
    | .decode _ => some { s with cFailed := true, cpc := if s.addFirst then .adding else .closing }
    | .send =>
      if s.pipe < pipeCap then some { s with pipe := s.pipe + 1, cpc := .recv }
      else if s.cancelled then some { s with cpc := if s.addFirst then .adding else .closing }
      else none
    | .adding => some { s with cErrIn := s.cFailed, cpc := if s.addFirst then .closing else .done }
    | .closing => some { s with pipeClosed := true, cpc := if s.addFirst then .done else .adding }
    | .done => none
  | .u =>
    match s.upc with
    | .next =>
      if s.pipe > 0 then some { s with pipe := s.pipe - 1, delivered := s.delivered + 1 }
      else if s.pipeClosed then
        some { s with upc := .done, sawFalse := true, errSeen := s.dErrIn || s.cErrIn }
      else none
    | .done => none

/-- run a schedule: a blocked choice is skipped -/
def run (s : St) (sched : List Pid) : St :=
  sched.foldl (fun s p => (step s p).getD s) s

def init (addFirst : Bool) (items : List Item) : St := { addFirst := addFirst, items := items }

/-- decoding of the input fails somewhere -/
def Fails (items : List Item) : Bool := items.any (· ≠ .good)

end Ftdc.Pipeline
