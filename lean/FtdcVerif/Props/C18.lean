import FtdcVerif.Lemmas.Csv
/-!
# C18 — CSV export and import preserve the metric table

Records are lists of fields; splitting/quoting is `encoding/csv` (external; the harness parses
the real text with it, so keys with commas, quotes and newlines are exercised there).  Proved
here for every chunk stream: the CSV is a header of the metric keys followed by one row of
integer-normalised values per sample; every field of every row parses back to the same integer
(`atoi ∘ itoa = id`, concrete decimal functions); `WriteCSV` fails exactly when the metric count
changes; `DumpCSV` starts a new file exactly then.
-/
namespace Ftdc.Props.C18
open Ftdc

/-- `strconv.Atoi(strconv.FormatInt(v, 10)) = v` for every int64 (indeed every integer) -/
theorem integer_text_roundtrip (v : Int) : atoi (itoa v) = some v := atoi_itoa v

/-- a row holds one field per metric, each the decimal text of the integer-normalised value -/
theorem row_is_integer_table (c : Chunk) (i : Nat) :
    (c.record i).map atoi = c.metrics.map fun m => some ((m.values.getD i 0).toInt) := by
  simp [Chunk.record, List.map_map, Function.comp_def, atoi_itoa]

/-- header = the metric keys in order; one row per sample -/
theorem header_and_row_count (c : Chunk) :
    c.header = c.metrics.map Metric.key ∧ c.records.length = c.nPoints ∧
    ∀ i, (c.record i).length = c.metrics.length := by
  simp [Chunk.header, Chunk.records, Chunk.record]

/-- a stream whose metric count never changes: `WriteCSV` succeeds and writes the header of the
first chunk followed by all rows in order -/
theorem write_single_schema (c : Chunk) (cs : List Chunk)
    (h : ∀ x ∈ cs, x.metrics.length = c.metrics.length) :
    writeCsv none (c :: cs) = (c.header :: (c.records ++ (cs.map Chunk.records).flatten), true) := by
  have gen : ∀ (cs : List Chunk) (n : Nat), (∀ x ∈ cs, x.metrics.length = n) →
      writeCsv (some n) cs = ((cs.map Chunk.records).flatten, true) := by
    intro cs
    induction cs with
    | nil => intro n _; rfl
    | cons x xs ih =>
      intro n hx
      have hxn := hx x (by simp)
      simp only [writeCsv, hxn, ne_eq, not_true_eq_false, ite_false]
      rw [ih n (fun y hy => hx y (by simp [hy]))]
      simp
  simp only [writeCsv]
  rw [gen cs _ h]
  simp

/-- **`WriteCSV` reports a change of the metric count as an error** -/
theorem write_errors_on_change (n : Nat) (c : Chunk) (cs : List Chunk) (h : c.metrics.length ≠ n) :
    (writeCsv (some n) (c :: cs)).2 = false := by
  have : n ≠ c.metrics.length := fun e => h e.symm
  simp [writeCsv, this]

/-- **`DumpCSV` starts a new file exactly when the metric count changes**: one step -/
theorem dump_rotates_iff_count_changes (n : Nat) (cur : List (List Bytes)) (c : Chunk) (cs : List Chunk) :
    dumpCsv (some n) cur (c :: cs) =
      if n ≠ c.metrics.length then cur :: dumpCsv (some c.metrics.length) (c.header :: c.records) cs
      else dumpCsv (some n) (cur ++ c.records) cs := by
  simp [dumpCsv]

/-- every file `DumpCSV` starts is self-describing: it begins with the header of its first chunk -/
theorem dump_new_file_has_header (n : Nat) (cur : List (List Bytes)) (c : Chunk) (h : n ≠ c.metrics.length) :
    dumpCsv (some n) cur [c] = [cur, c.header :: c.records] := by
  simp [dumpCsv, h]

/-- converting a row back: the document has the header's keys and the row's integers, in order -/
theorem converted_document (c : Chunk) (i : Nat) :
    recordDoc c.header (c.record i) =
      BDoc.ofList (c.metrics.map fun m => (m.key, BVal.int64 (BitVec.ofInt 64 (m.values.getD i 0).toInt))) := by
  unfold recordDoc Chunk.header Chunk.record
  congr 1
  generalize c.metrics = ms
  induction ms with
  | nil => rfl
  | cons m r ih =>
    simp only [List.map_cons, List.zip_cons_cons, List.filterMap_cons, atoi_itoa, Option.map_some]
    rw [ih]

/-- ... and those integers are the table's values (two's complement identity) -/
theorem converted_value (v : I64) : BitVec.ofInt 64 v.toInt = v := by
  simp

/-! non-vacuity -/
example : atoi (itoa (-9223372036854775808)) = some (-9223372036854775808) := atoi_itoa _

end Ftdc.Props.C18
