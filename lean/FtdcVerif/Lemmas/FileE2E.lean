import FtdcVerif.Props.C07
import FtdcVerif.Lemmas.Stream
import FtdcVerif.Lemmas.Reader
namespace Ftdc.FileE2E
open Ftdc Ftdc.Props.C07

/-! # The file level: what the collectors write is what the reader reads

The outer documents `{_id, type: 0, doc}` / `{_id, type: 1, data: binary}` as bytes, and zlib as a pair of
functions of which only `inflate (deflate p) = p, cleanly` is assumed. -/

def keyDoc : Bytes := [100, 111, 99]   -- "doc"

/-- a BSON binary value of subtype 0 -/
def binaryRaw (z : Bytes) : Bytes := le32 z.length ++ [0] ++ z

/-- `_id`: the chunk's first time stamp (`now` stands for a `time.Now()` taken while collecting) -/
def idMs (now : I64) : Ts → I64
  | .at ms => ms
  | _ => now

/-- `Resolve`'s two documents as BSON trees (collector_better.go) -/
def wireDoc (deflate : Bytes → Bytes) (now : I64) : OutDoc → BDoc
  | .metaDoc id md =>
    .cons keyId (.datetime (idMs now id)) (.cons keyType (.int32 0#32) (.cons keyDoc (.doc md) .nil))
  | .chunk id ref first rows =>
    let p := payloadOf ref first rows
    .cons keyId (.datetime (idMs now id)) (.cons keyType (.int32 1#32)
      (.cons keyData (.other 0x05 (binaryRaw (le32 p.length ++ deflate p))) .nil))

/-- the bytes of a list of output documents -/
def fileBytes (deflate : Bytes → Bytes) (now : I64) (outs : List OutDoc) : Bytes :=
  (outs.map fun o => serDoc (wireDoc deflate now o)).flatten

theorem binary_otherOk (z : Bytes) (h : z.length < 2 ^ 31) : OtherOk 0x05 (binaryRaw z) := by
  refine ⟨by decide, ?_⟩
  intro fuel rest
  have h32 : z.length < 2 ^ 32 := by omega
  have hl4 : (le32 z.length).length = 4 := le32_length _
  have e5 : takeN 5 (binaryRaw z ++ rest) = some (le32 z.length ++ [0], z ++ rest) := by
    have : binaryRaw z ++ rest = (le32 z.length ++ [0]) ++ (z ++ rest) := by simp [binaryRaw]
    rw [this]
    have hl : (le32 z.length ++ [0]).length = 5 := by simp [hl4]
    rw [← hl]; exact takeN_append _ _
  have et : (le32 z.length ++ [0]).take 4 = le32 z.length := by
    rw [List.take_append_of_le_length (by omega)]; rw [← hl4]; exact List.take_length
  have es : (le32 z.length ++ [0]).getD 4 0 = 0 := by
    rw [List.getD_eq_getElem?_getD, List.getElem?_append_right (by omega)]; simp [hl4]
  have eall : takeN (5 + z.length) (binaryRaw z ++ rest) = some (binaryRaw z, rest) := by
    have hl : (binaryRaw z).length = 5 + z.length := by simp [binaryRaw, hl4]; omega
    rw [← hl]; exact takeN_append _ _
  simp only [parseVal]
  simp only [show ¬ ((5 : Nat) = 0x01) by decide, show ¬ ((5 : Nat) = 0x02 ∨ (5 : Nat) = 0x0D ∨ (5 : Nat) = 0x0E) by decide,
    show ¬ ((5 : Nat) = 0x03 ∨ (5 : Nat) = 0x04) by decide, if_false, if_true, e5, et, es, rdLe_le32 _ h32]
  have c1 : ¬ z.length ≥ 2 ^ 31 := by omega
  simp only [c1, if_false, show ¬ (5 < 0 ∧ 0 < 0x80) by decide, eall, show ¬ ((0 : Nat) = 2) by decide]

/-- what zlib is assumed to do: inflating a deflated payload gives the payload back and the stream ends cleanly -/
def ZlibOK (deflate : Bytes → Bytes) (inflate : Inflate) : Prop := ∀ p, inflate (deflate p) = some (p, true)

theorem lookup_type (a : BVal) (b : BVal) (k3 : Bytes) (c : BVal) (h3 : k3 ≠ keyType) :
    lookupLast keyType (.cons keyId a (.cons keyType b (.cons k3 c .nil))) = some b := by
  simp [lookupLast, BDoc.toList, List.filter, keyId, keyType] at *
  simp [h3]

theorem processDoc_meta (deflate : Bytes → Bytes) (inflate : Inflate) (now : I64) (id : Ts) (md : BDoc) (cur : Option BDoc) :
    processDoc inflate (wireDoc deflate now (.metaDoc id md)) cur =
      .ok (some (wireDoc deflate now (.metaDoc id md)), none) := by
  have ht : lookupLast keyType (wireDoc deflate now (.metaDoc id md)) = some (.int32 0#32) :=
    lookup_type _ _ keyDoc _ (by decide)
  simp [processDoc, ht, isNum]

theorem binaryPayload_raw (z : Bytes) : binaryPayload (binaryRaw z) = z := by
  have hl : (le32 z.length).length = 4 := le32_length _
  unfold binaryPayload binaryRaw
  generalize le32 z.length = L at hl
  match L, hl with
  | [a, b, c, d], _ => simp

theorem processDoc_chunk (deflate : Bytes → Bytes) (inflate : Inflate) (hz : ZlibOK deflate inflate) (now : I64)
    (id : Ts) (ref : BDoc) (first : Row) (rows : List Row) (cur : Option BDoc) (c : Chunk)
    (hd : decodePayload (payloadOf ref first rows) = .ok c) :
    processDoc inflate (wireDoc deflate now (.chunk id ref first rows)) cur =
      .ok (cur, some { c with id := some (idMs now id), metadata := cur }) := by
  have ht : lookupLast keyType (wireDoc deflate now (.chunk id ref first rows)) = some (.int32 1#32) :=
    lookup_type _ _ keyData _ (by decide)
  have hi : lookupLast keyId (wireDoc deflate now (.chunk id ref first rows)) = some (.datetime (idMs now id)) := by
    simp [lookupLast, wireDoc, BDoc.toList, List.filter, keyId, keyType, keyData]
  have hdta : lookupLast keyData (wireDoc deflate now (.chunk id ref first rows)) =
      some (.other 0x05 (binaryRaw (le32 (payloadOf ref first rows).length ++ deflate (payloadOf ref first rows)))) := by
    simp [lookupLast, wireDoc, BDoc.toList, List.filter, keyId, keyType, keyData]
  have hl4 : (le32 (payloadOf ref first rows).length).length = 4 := le32_length _
  have hdrop : (le32 (payloadOf ref first rows).length ++ deflate (payloadOf ref first rows)).drop 4 = deflate (payloadOf ref first rows) := by
    rw [List.drop_append_of_le_length (by omega), List.drop_eq_nil_of_le (by omega)]; rfl
  have hlen : ¬ (le32 (payloadOf ref first rows).length ++ deflate (payloadOf ref first rows)).length < 4 := by
    simp [hl4]
  simp only [processDoc, ht, hi, hdta, isNum, binaryPayload_raw, hlen, hdrop, hz _, hd]
  simp

/-- an output document the byte-level theorems apply to: a decodable chunk, or a metadata document whose
payload is well-formed; in both cases the whole outer document stays below 2^31 bytes -/
def OutOK (deflate : Bytes → Bytes) (now : I64) (o : OutDoc) : Prop :=
  ChunkOK o ∧ (serDoc (wireDoc deflate now o)).length < 2 ^ 31 ∧
  (match o with | .metaDoc _ md => WFDoc md | .chunk _ _ _ _ => True)

theorem keyOk_of (k : Bytes) (h : k.all (· ≠ 0) = true) : KeyOk k := by
  intro b hb; have := List.all_eq_true.mp h b hb; simpa using this

theorem wireDoc_wf (deflate : Bytes → Bytes) (now : I64) (o : OutDoc) (h : OutOK deflate now o) :
    WFDoc (wireDoc deflate now o) := by
  obtain ⟨_, hl, hm⟩ := h
  cases o with
  | metaDoc id md =>
    have hmd : (serDoc md).length < 2 ^ 31 := by
      have : (serDoc md).length ≤ (serDoc (wireDoc deflate now (.metaDoc id md))).length := by
        simp [wireDoc, serDoc_length, serElems, serVal]; omega
      omega
    exact ⟨keyOk_of _ (by decide), trivial, keyOk_of _ (by decide), trivial, keyOk_of _ (by decide), ⟨hm, hmd⟩, trivial⟩
  | chunk id ref first rows =>
    refine ⟨keyOk_of _ (by decide), trivial, keyOk_of _ (by decide), trivial, keyOk_of _ (by decide), ?_, trivial⟩
    apply binary_otherOk
    have : (le32 (payloadOf ref first rows).length ++ deflate (payloadOf ref first rows)).length ≤
        (serDoc (wireDoc deflate now (.chunk id ref first rows))).length := by
      simp [wireDoc, serDoc_length, serElems, serVal, binaryRaw]; omega
    omega

/-- what the reader makes of one chunk document: its reference document and its samples -/
def chunkPart : OutDoc → Option (BDoc × List Row)
  | .metaDoc _ _ => none
  | .chunk _ ref first rows => some (ref, first :: rows)

/-- the reader's fold over the written documents: every chunk is delivered with its reference document and exactly its
samples, in order, no error -/
theorem processDocs_file (deflate : Bytes → Bytes) (inflate : Inflate) (hz : ZlibOK deflate inflate) (now : I64) :
    ∀ (outs : List OutDoc), (∀ o ∈ outs, OutOK deflate now o) → ∀ (md : Option BDoc) (acc : List Chunk),
    ∃ md' cs, processDocs inflate (.running md acc) (outs.map fun o => serDoc (wireDoc deflate now o)) = .running md' (acc ++ cs) ∧
      cs.map (fun c => (c.ref, c.rows)) = outs.filterMap chunkPart := by
  intro outs
  induction outs with
  | nil => intro _ md acc; exact ⟨md, [], by simp [processDocs], rfl⟩
  | cons o rest ih =>
    intro hok md acc
    have ho := hok o (List.mem_cons_self ..)
    have hrest : ∀ x ∈ rest, OutOK deflate now x := fun x hx => hok x (List.mem_cons_of_mem _ hx)
    have hparse := parseDoc_serDoc (wireDoc deflate now o) (wireDoc_wf deflate now o ho) ho.2.1
    simp only [List.map_cons, processDocs, List.foldl_cons, stepDoc, hparse]
    cases o with
    | metaDoc id mdoc =>
      simp only [processDoc_meta]
      obtain ⟨md', cs, h1, h2⟩ := ih hrest (some (wireDoc deflate now (.metaDoc id mdoc))) acc
      exact ⟨md', cs, h1, by rw [List.filterMap_cons]; simpa [chunkPart] using h2⟩
    | chunk id ref first rows =>
      obtain ⟨c, hd, hrows⟩ := chunkOK_decodes id ref first rows ho.1
      have href : c.ref = ref := by
        obtain ⟨⟨hw, hl, hts, hnm⟩, hf, hr, hn⟩ := ho.1
        subst hf
        have hnm' : (vals ref).length < 2 ^ 32 := by simpa [vals] using hnm
        obtain ⟨c', h1, h2, _⟩ := decode_payload ref rows hw hl hts hr hnm' hn (by
          have := Nat.mul_lt_mul'' hnm' hn
          have e : (2 : Nat) ^ 32 * 2 ^ 32 = 2 ^ 64 := by decide
          omega)
        have : c = c' := by
          have := hd.symm.trans h1; simpa [OutDoc.payload] using this
        rw [this]; exact h2
      simp only [processDoc_chunk deflate inflate hz now id ref first rows md c hd]
      obtain ⟨md', cs, h1, h2⟩ := ih hrest md (acc ++ [{ c with id := some (idMs now id), metadata := md }])
      refine ⟨md', { c with id := some (idMs now id), metadata := md } :: cs, by simpa [processDocs] using h1, ?_⟩
      simp only [List.map_cons, List.filterMap_cons, chunkPart, h2]
      congr 1
      show (c.ref, Chunk.rows { c with id := some (idMs now id), metadata := md }) = _
      rw [href]; congr 1

/-- **The file round trip**: any list of output documents (metadata documents and decodable chunks, in any order),
serialised as the collectors serialise them, is read by `ReadChunks` without error into exactly its chunks:
same reference documents, same samples, same order. -/
theorem file_roundtrip (deflate : Bytes → Bytes) (inflate : Inflate) (hz : ZlibOK deflate inflate) (now : I64)
    (outs : List OutDoc) (hok : ∀ o ∈ outs, OutOK deflate now o) :
    (readAll inflate (fileBytes deflate now outs)).err = none ∧
    (readAll inflate (fileBytes deflate now outs)).chunks.map (fun c => (c.ref, c.rows)) = outs.filterMap chunkPart := by
  have hfr : ∀ db ∈ (outs.map fun o => serDoc (wireDoc deflate now o)), WellFramed db := by
    intro db hdb
    obtain ⟨o, ho, rfl⟩ := List.mem_map.mp hdb
    exact serDoc_wellFramed _ (hok o ho).2.1
  unfold fileBytes
  rw [readAll_framed inflate _ hfr]
  obtain ⟨md', cs, h1, h2⟩ := processDocs_file deflate inflate hz now outs hok none []
  rw [h1]
  exact ⟨rfl, by simpa [RState.result] using h2⟩

/-! ### metadata travels with the chunks (C11 at the byte level) -/

/-- the chunks of a list of output documents, each with the metadata document (as the reader stores it: the whole
type-0 document) that precedes it most closely -/
def partsWithMeta (deflate : Bytes → Bytes) (now : I64) : Option BDoc → List OutDoc → List (BDoc × List Row × Option BDoc)
  | _, [] => []
  | _, .metaDoc id m :: r => partsWithMeta deflate now (some (wireDoc deflate now (.metaDoc id m))) r
  | md, .chunk _ ref first rows :: r => (ref, first :: rows, md) :: partsWithMeta deflate now md r

theorem processDocs_file_meta (deflate : Bytes → Bytes) (inflate : Inflate) (hz : ZlibOK deflate inflate) (now : I64) :
    ∀ (outs : List OutDoc), (∀ o ∈ outs, OutOK deflate now o) → ∀ (md : Option BDoc) (acc : List Chunk),
    ∃ md' cs, processDocs inflate (.running md acc) (outs.map fun o => serDoc (wireDoc deflate now o)) = .running md' (acc ++ cs) ∧
      cs.map (fun c => (c.ref, c.rows, c.metadata)) = partsWithMeta deflate now md outs := by
  intro outs
  induction outs with
  | nil => intro _ md acc; exact ⟨md, [], by simp [processDocs], rfl⟩
  | cons o rest ih =>
    intro hok md acc
    have ho := hok o (List.mem_cons_self ..)
    have hrest : ∀ x ∈ rest, OutOK deflate now x := fun x hx => hok x (List.mem_cons_of_mem _ hx)
    have hparse := parseDoc_serDoc (wireDoc deflate now o) (wireDoc_wf deflate now o ho) ho.2.1
    simp only [List.map_cons, processDocs, List.foldl_cons, stepDoc, hparse]
    cases o with
    | metaDoc id mdoc =>
      simp only [processDoc_meta]
      obtain ⟨md', cs, h1, h2⟩ := ih hrest (some (wireDoc deflate now (.metaDoc id mdoc))) acc
      exact ⟨md', cs, h1, by simpa [partsWithMeta] using h2⟩
    | chunk id ref first rows =>
      obtain ⟨c, hd, hrows⟩ := chunkOK_decodes id ref first rows ho.1
      have href : c.ref = ref := by
        obtain ⟨⟨hw, hl, hts, hnm⟩, hf, hr, hn⟩ := ho.1
        subst hf
        have hnm' : (vals ref).length < 2 ^ 32 := by simpa [vals] using hnm
        obtain ⟨c', h1, h2, _⟩ := decode_payload ref rows hw hl hts hr hnm' hn (by
          have := Nat.mul_lt_mul'' hnm' hn
          have e : (2 : Nat) ^ 32 * 2 ^ 32 = 2 ^ 64 := by decide
          omega)
        have : c = c' := by
          have := hd.symm.trans h1; simpa [OutDoc.payload] using this
        rw [this]; exact h2
      simp only [processDoc_chunk deflate inflate hz now id ref first rows md c hd]
      obtain ⟨md', cs, h1, h2⟩ := ih hrest md (acc ++ [{ c with id := some (idMs now id), metadata := md }])
      refine ⟨md', { c with id := some (idMs now id), metadata := md } :: cs, by simpa [processDocs] using h1, ?_⟩
      simp only [List.map_cons, partsWithMeta, h2]
      congr 1
      show (c.ref, Chunk.rows { c with id := some (idMs now id), metadata := md }, md) = _
      rw [href]; congr 2

/-- **Metadata travels with the chunks it describes, at the byte level**: in the file made of any list of output
documents, every chunk the reader delivers carries the metadata document that precedes it most closely (none before
the first one) - besides its reference document and samples -/
theorem file_roundtrip_meta (deflate : Bytes → Bytes) (inflate : Inflate) (hz : ZlibOK deflate inflate) (now : I64)
    (outs : List OutDoc) (hok : ∀ o ∈ outs, OutOK deflate now o) :
    (readAll inflate (fileBytes deflate now outs)).err = none ∧
    (readAll inflate (fileBytes deflate now outs)).chunks.map (fun c => (c.ref, c.rows, c.metadata)) =
      partsWithMeta deflate now none outs := by
  have hfr : ∀ db ∈ (outs.map fun o => serDoc (wireDoc deflate now o)), WellFramed db := by
    intro db hdb
    obtain ⟨o, ho, rfl⟩ := List.mem_map.mp hdb
    exact serDoc_wellFramed _ (hok o ho).2.1
  unfold fileBytes
  rw [readAll_framed inflate _ hfr]
  obtain ⟨md', cs, h1, h2⟩ := processDocs_file_meta deflate inflate hz now outs hok none []
  rw [h1]
  exact ⟨rfl, by simpa [RState.result] using h2⟩

/-! ### composed with the collectors -/

/-- what `decodePayload` returns for a well-formed chunk: its reference document and exactly its samples -/
theorem decoded_ref_rows (id : Ts) (ref : BDoc) (first : Row) (rows : List Row) (h : ChunkOK (.chunk id ref first rows))
    (c : Chunk) (hd : decodePayload (payloadOf ref first rows) = .ok c) : c.ref = ref ∧ c.rows = first :: rows := by
  obtain ⟨⟨hw, hl, hts, hnm⟩, hf, hr, hn⟩ := h
  subst hf
  have hnm' : (vals ref).length < 2 ^ 32 := by simpa [vals] using hnm
  obtain ⟨c', h1, h2, h3⟩ := decode_payload ref rows hw hl hts hr hnm' hn (by
    have := Nat.mul_lt_mul'' hnm' hn
    have e : (2 : Nat) ^ 32 * 2 ^ 32 = 2 ^ 64 := by decide
    omega)
  have : c = c' := by have := hd.symm.trans h1; simpa using this
  rw [this]; exact ⟨h2, h3⟩

theorem addLog_fst (ds : List BDoc) : ∀ (c : Streaming) (acc : List BDoc),
    (ds.foldl addLog (c, acc)).1 = ds.foldl (fun (c : Streaming) d => (c.add d).1) c := by
  induction ds with
  | nil => intro c acc; rfl
  | cons d ds ih =>
    intro c acc
    simp only [List.foldl_cons]
    have e : addLog (c, acc) d = ((c.add d).1, (addLog (c, acc) d).2) := rfl
    rw [e]; exact ih _ _

/-- everything a streaming collector has handed to its writer (over a writer that accepts every write, documents
`DocOK`) is a decodable chunk -/
theorem streaming_logged_chunkOK (n : Nat) (hn : n < 2 ^ 32) (ds : List BDoc) (hds : ∀ d ∈ ds, DocOK d) :
    ∀ o ∈ loggedDocs (ds.foldl (fun (c : Streaming) d => (c.add d).1) (Streaming.new n)).out, ChunkOK o := by
  have hsok : ∀ (ds : List BDoc), (∀ d ∈ ds, DocOK d) → ∀ (c : Streaming) (acc : List BDoc), SOK n c →
      SOK n (ds.foldl addLog (c, acc)).1 := by
    intro ds
    induction ds with
    | nil => intro _ c acc h; exact h
    | cons d ds ih =>
      intro hd c acc h
      simp only [List.foldl_cons]
      have e : addLog (c, acc) d = ((c.add d).1, (addLog (c, acc) d).2) := rfl
      rw [e]
      exact ih (fun x hx => hd x (List.mem_cons_of_mem _ hx)) _ _ (sok_add n hn c d (hd d (List.mem_cons_self ..)) h)
  have h0 : SOK n (Streaming.new n) :=
    ⟨rfl, by intro o ho; simp [loggedDocs, Streaming.new] at ho,
      ⟨by simp [Streaming.new, Better.Inv], rfl, by intro r hr; simp [Streaming.new] at hr⟩⟩
  have hfin := hsok ds hds (Streaming.new n) [] h0
  rw [addLog_fst] at hfin
  exact hfin.2.1


/-- the hypotheses that concern bytes, not samples: every written document fits BSON's 31-bit size, and a metadata
document (user input to `SetMetadata`) is well-formed -/
def SizesOK (deflate : Bytes → Bytes) (now : I64) (outs : List OutDoc) : Prop :=
  ∀ o ∈ outs, (serDoc (wireDoc deflate now o)).length < 2 ^ 31 ∧
    (match o with | .metaDoc _ md => WFDoc md | .chunk _ _ _ _ => True)

theorem samples_of_parts (outs : List OutDoc) :
    ((outs.filterMap chunkPart).map (·.2)).flatten = (outs.map OutDoc.samples).flatten := by
  induction outs with
  | nil => rfl
  | cons o rest ih =>
    cases o with
    | metaDoc id md => rw [List.filterMap_cons]; simpa [chunkPart, OutDoc.samples] using ih
    | chunk id ref first rows => simp [chunkPart, OutDoc.samples, ih]

theorem rows_of_file (deflate : Bytes → Bytes) (inflate : Inflate) (hz : ZlibOK deflate inflate) (now : I64)
    (outs : List OutDoc) (hck : ∀ o ∈ outs, ChunkOK o) (hsz : SizesOK deflate now outs) :
    (readAll inflate (fileBytes deflate now outs)).err = none ∧
    ((readAll inflate (fileBytes deflate now outs)).chunks.map Chunk.rows).flatten = (outs.map OutDoc.samples).flatten := by
  obtain ⟨h1, h2⟩ := file_roundtrip deflate inflate hz now outs
    (fun o ho => ⟨hck o ho, (hsz o ho).1, (hsz o ho).2⟩)
  refine ⟨h1, ?_⟩
  rw [← samples_of_parts, ← h2]
  simp [List.map_map, Function.comp_def]

/-- **The streaming collector, end to end at the byte level**: after any sequence of `Add`s of well-formed documents
(any schemas; rejected ones included) over a writer that accepts every write, the BYTES handed to the writer are read
back by `ReadChunks` without error, and the samples of the chunks it delivers, followed by the collector's pending
samples, are exactly the accepted documents' values - once each and in order.  zlib enters only through
`inflate (deflate p) = p`. -/
theorem streaming_file_roundtrip (n : Nat) (hn : n < 2 ^ 32) (ds : List BDoc) (hds : ∀ d ∈ ds, DocOK d)
    (deflate : Bytes → Bytes) (inflate : Inflate) (hz : ZlibOK deflate inflate) (now : I64)
    (hsz : SizesOK deflate now (loggedDocs (ds.foldl addLog (Streaming.new n, [])).1.out)) :
    let r := ds.foldl addLog (Streaming.new n, [])
    let file := fileBytes deflate now (loggedDocs r.1.out)
    (readAll inflate file).err = none ∧
    ((readAll inflate file).chunks.map Chunk.rows).flatten ++ r.1.inner.samples =
      r.2.map fun x => (extractDoc x).map (·.1) := by
  intro r file
  have hsok : ∀ (ds : List BDoc), (∀ d ∈ ds, DocOK d) → ∀ (c : Streaming) (acc : List BDoc), SOK n c →
      SOK n (ds.foldl addLog (c, acc)).1 := by
    intro ds
    induction ds with
    | nil => intro _ c acc h; exact h
    | cons d ds ih =>
      intro hd c acc h
      simp only [List.foldl_cons]
      have e : addLog (c, acc) d = ((c.add d).1, (addLog (c, acc) d).2) := rfl
      rw [e]
      exact ih (fun x hx => hd x (List.mem_cons_of_mem _ hx)) _ _ (sok_add n hn c d (hd d (List.mem_cons_self ..)) h)
  have h0 : SOK n (Streaming.new n) :=
    ⟨rfl, by intro o ho; simp [loggedDocs, Streaming.new] at ho,
      ⟨by simp [Streaming.new, Better.Inv], rfl, by intro r hr; simp [Streaming.new] at hr⟩⟩
  have hfin := hsok ds hds (Streaming.new n) [] h0
  obtain ⟨e1, e2⟩ := rows_of_file deflate inflate hz now (loggedDocs r.1.out) hfin.2.1 hsz
  refine ⟨e1, ?_⟩
  rw [e2]
  exact (streaming_writer_decodes_to_accepted n hn ds hds).2

theorem batch_resolve_samples : ∀ (chunks : List Better) (acc out : List OutDoc),
    chunks.foldl (fun a b => match a, b.resolve with
      | some l, some o => some (l ++ o)
      | _, _ => none) (some acc) = some out →
    (out.map OutDoc.samples).flatten = (acc.map OutDoc.samples).flatten ++ (chunks.map Better.samples).flatten := by
  intro chunks
  induction chunks with
  | nil => intro acc out h; simp at h; subst h; simp
  | cons b rest ih =>
    intro acc out h
    simp only [List.foldl_cons] at h
    cases hr : b.resolve with
    | none =>
      rw [hr] at h
      have hnone : ∀ (l : List Better), l.foldl (fun a b => match a, b.resolve with
          | some l, some o => some (l ++ o)
          | _, _ => none) (none : Option (List OutDoc)) = none := by
        intro l; induction l with
        | nil => rfl
        | cons x xs ihx => simpa using ihx
      simp only [] at h
      rw [hnone rest] at h; simp at h
    | some docs =>
      rw [hr] at h
      simp only [] at h
      rw [ih (acc ++ docs) out h]
      simp [resolve_samples b docs hr]

/-- **The batch collector, end to end at the byte level**: what `Resolve` returns after any sequence of `Add`s of
well-formed documents, as bytes, is read back without error into exactly the accepted documents' values. -/
theorem batch_file_roundtrip (n : Nat) (hn : n < 2 ^ 32) (ds : List BDoc) (hds : ∀ d ∈ ds, DocOK d)
    (deflate : Bytes → Bytes) (inflate : Inflate) (hz : ZlibOK deflate inflate) (now : I64)
    (out : List OutDoc) (hres : (ds.foldl (fun b d => (b.add d).1) (Batch.new n)).resolve = some out)
    (hsz : SizesOK deflate now out) :
    (readAll inflate (fileBytes deflate now out)).err = none ∧
    ((readAll inflate (fileBytes deflate now out)).chunks.map Chunk.rows).flatten =
      (ds.foldl (fun b d => (b.add d).1) (Batch.new n)).samples := by
  obtain ⟨e1, e2⟩ := rows_of_file deflate inflate hz now out (batch_output_decodes n hn ds hds out hres) hsz
  refine ⟨e1, ?_⟩
  rw [e2]
  unfold Batch.resolve at hres
  have := batch_resolve_samples _ [] out hres
  simpa [Batch.samples] using this

end Ftdc.FileE2E
