import FtdcVerif.Model.Recorders
/-!
# C15 — every recorder persists exactly what its documented policy says

`Recorders.step` is the per-implementation reference model (one step function, eight kinds; the
synchronized and stdlib-shim wrappers delegate unchanged); it is compared with all ten
constructors on every generated call history.  The theorems below are the policy clauses, for
every state and every kind: which calls can hand a sample to the collector at all, counters
are sums, gauges are the last value set and survive EndTest/Reset, everything else is zero
afterwards, EndTest returns exactly the errors accumulated since the previous EndTest.
-/
namespace Ftdc.Props.C15
open Ftdc.Recorders

/-- **persist moments**: only EndIteration and EndTest ever hand a sample to the collector -/
theorem only_end_calls_persist (s : RState) (op : ROp)
    (h1 : ∀ d, op ≠ .endIter d) (h2 : op ≠ .endTest) : (step s op).2.persisted = [] := by
  cases op with
  | endIter d => exact absurd rfl (h1 d)
  | endTest => exact absurd rfl h2
  | begin => simp only [step]
  | incOps v => simp only [step]
  | incIter v => simp only [step]
  | incSize v => simp only [step]
  | incErr v => simp only [step]
  | setDur v => simp only [step]
  | setTotal v => simp only [step]
  | _ => simp [step]

/-- the single, interval and their histogram variants never persist at EndIteration -/
theorem accumulate_only_kinds (s : RState) (d : Int)
    (hk : s.kind = .single ∨ s.kind = .interval ∨ s.kind = .histSingle ∨ s.kind = .histInterval) :
    (step s (.endIter d)).2.persisted = [] := by
  rcases hk with h | h | h | h <;> simp [step, h]

/-- the raw recorder persists at every EndIteration (when the collector accepts the sample) -/
theorem raw_persists_every_iteration (s : RState) (d : Int) (hk : s.kind = .raw)
    (hacc : s.fails.contains s.adds = false) :
    ((step s (.endIter d)).2.persisted).length = 1 := by
  have hm : (s.adds ∈ s.fails) = False := by simpa using hacc
  simp only [step, hk, persist]
  simp [hm]

/-- the grouped recorders persist at EndIteration exactly when the interval has elapsed -/
theorem grouped_persists_iff_interval_elapsed (s : RState) (d : Int) (hk : s.kind = .grouped)
    (hacc : s.fails.contains s.adds = false) :
    ((step s (.endIter d)).2.persisted ≠ []) ↔ gate s = true := by
  have hm : (s.adds ∈ s.fails) = False := by simpa using hacc
  by_cases hg : gate s = true
  · simp only [step, hk, hg, ite_true, persist]; simp [hm]
  · simp [step, hk, hg]

/-- **counters are sums of increments** (performance recorders): an increment adds exactly its
argument to its own counter and touches no other -/
theorem increment_adds (s : RState) (v : Int) (hk : s.kind.isHist = false) :
    (step s (.incOps v)).1.p.ops = s.p.ops + v ∧ (step s (.incOps v)).1.p.n = s.p.n ∧
    (step s (.incSize v)).1.p.size = s.p.size + v ∧ (step s (.incErr v)).1.p.errors = s.p.errors + v ∧
    (step s (.incIter v)).1.p.n = s.p.n + v := by
  simp [step, hk]

/-- calls that are not increments, EndIteration, EndTest or Reset leave every counter alone -/
theorem setters_keep_counters (s : RState) (op : ROp) (hk : s.kind.isHist = false)
    (hop : op = .setWorkers 0 ∨ op = .setState 0 ∨ op = .setFailed true ∨ op = .setID 0 ∨ op = .setTime 0 ∨ op = .begin) :
    (step s op).1.p.ops = s.p.ops ∧ (step s op).1.p.size = s.p.size ∧ (step s op).1.p.errors = s.p.errors ∧
    (step s op).1.p.n = s.p.n := by
  rcases hop with h | h | h | h | h | h <;> subst h <;> simp [step, setTimestamp] <;> (repeat' split) <;> simp

/-- **gauges are the last value set** -/
theorem gauge_is_last_set (s : RState) (v : Int) (b : Bool) :
    (step s (.setWorkers v)).1.p.workers = v ∧ (step s (.setState v)).1.p.state = v ∧
    (step s (.setFailed b)).1.p.failed = b := by
  simp [step]

/-- **after EndTest or Reset all state except the gauges is zero** (for every kind) -/
theorem reset_keeps_only_gauges (s : RState) :
    let p := (step s .reset).1.p
    p.state = s.p.state ∧ p.workers = s.p.workers ∧ p.failed = s.p.failed ∧
    p.n = 0 ∧ p.ops = 0 ∧ p.size = 0 ∧ p.errors = 0 ∧ p.dur = 0 ∧ p.total = 0 ∧ p.id = 0 ∧
    p.ts = .zero ∧ p.elapsedParts = 0 ∧ p.hn.vals = [] ∧ p.hops.vals = [] ∧ p.hdur.vals = [] ∧
    p.htotal.vals = [] ∧ (step s .reset).1.started = false ∧ (step s .reset).1.nerrs = 0 := by
  simp [step, doReset, freshPoint, counterHist, timerHist]

theorem endTest_keeps_only_gauges (s : RState) :
    let p := (step s .endTest).1.p
    p.state = s.p.state ∧ p.workers = s.p.workers ∧ p.failed = s.p.failed ∧
    p.n = 0 ∧ p.ops = 0 ∧ p.size = 0 ∧ p.errors = 0 ∧ p.dur = 0 ∧ p.total = 0 ∧
    p.ts = .zero ∧ (step s .endTest).1.started = false ∧ (step s .endTest).1.nerrs = 0 := by
  simp only [step]
  cases s.kind <;> simp [doReset, freshPoint, persist, setTimestamp, recTotalElapsed] <;>
    (repeat' split) <;> simp_all [freshPoint, setTimestamp]

/-- **EndTest returns every error since the previous EndTest**: the number it reports is the
catcher's count (collector failures and rejected histogram values), plus the failure of its own
final `Add` if that fails; and the count starts again from zero -/
theorem endTest_reports_accumulated_errors (s : RState) :
    ∃ k, (step s .endTest).2.endTestErrs = some k ∧ s.nerrs ≤ k ∧ k ≤ s.nerrs + 1 ∧
      (step s .endTest).1.nerrs = 0 := by
  simp only [step]
  cases hk : s.kind <;> simp only [] <;>
    first
    | (refine ⟨_, rfl, ?_, ?_, ?_⟩ <;> simp [persist, doReset] <;> (repeat' split) <;> simp_all [recTotalElapsed] <;> omega)
    | (split <;> refine ⟨_, rfl, ?_, ?_, ?_⟩ <;> simp [persist, doReset] <;> (repeat' split) <;> simp_all [recTotalElapsed] <;> omega)

/-- a failing collector call is counted and nothing is recorded for it -/
theorem failing_add_is_counted (s : RState) (h : s.fails.contains s.adds = true) :
    (persist s).2 = [] ∧ (persist s).1.nerrs = s.nerrs + 1 ∧ (persist s).1.adds = s.adds + 1 := by
  have hm : s.adds ∈ s.fails := by simpa using h
  simp [persist, hm]

/-- a histogram value outside the trackable range is reported as an error and not recorded -/
theorem rejected_value_is_counted (s : RState) (v : Int) (hk : s.kind.isHist = true)
    (hrej : (Ftdc.Hdr.recordValue s.p.hops.cfg v).isSome = false) :
    (step s (.incOps v)).1.nerrs = s.nerrs + 1 ∧ (step s (.incOps v)).1.p.hops.vals = s.p.hops.vals := by
  simp [step, hk, recH, H.record, hrej, catchErr]

/-! non-vacuity: the F14 history — a grouped histogram recorder with a 1 h interval persists
nothing at EndIteration -/
example : (run { kind := .histGrouped, intervalZero := false } [.incOps 3, .endIter 2, .endIter 2]).2.map
    (·.persisted.length) = [0, 0, 0] := by decide

end Ftdc.Props.C15
