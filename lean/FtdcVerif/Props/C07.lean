import FtdcVerif.Lemmas.Collector
/-!
# C07 — collectors are faithful, bounded logs under every operation history

`COp` is the collector interface; `Better.accepted` is the specification log (the samples whose
`Add` returned nil since the last `Reset`).  The theorems quantify over *all* operation lists.
The base and batch collectors are proved here; the dynamic and streaming collectors are
compositions of these (their chunks are batch/base collectors) and are compared with the
implementation over exhaustive short and random long histories by the `hist` stream.
-/
namespace Ftdc.Props.C07
open Ftdc

/-- **Faithful log (base collector), every history**: what the collector holds — and what
`Resolve` renders — is exactly the samples accepted since the last `Reset`, once, in order. -/
theorem base_faithful_log (n : Nat) (ops : List COp) :
    ((({ maxDeltas := n } : Better).run ops).samples) = Better.accepted { maxDeltas := n } [] ops := by
  have := Better.faithful_log ops { maxDeltas := n }
  simpa [Better.samples] using this

/-- `Resolve` renders exactly the held samples (and fails exactly when there are none). -/
theorem base_resolve_is_log (c : Better) (o : List OutDoc) (h : c.resolve = some o) :
    (o.map OutDoc.samples).flatten = c.samples :=
  Better.resolve_samples c o h

theorem base_resolve_fails_iff_empty (c : Better) : c.resolve = none ↔ c.samples = [] :=
  Better.resolve_none_iff c

/-- **Bounded, every history**: a chunk never holds more than its capacity (the base collector's
documented N + 1: the reference sample does not count). -/
theorem base_chunk_bounded (n : Nat) (ops : List COp) :
    ((({ maxDeltas := n } : Better).run ops).samples).length ≤ n + 1 := by
  have hinv := Better.run_inv ops _ (Better.fresh_inv n)
  have := Better.samples_bounded _ hinv
  have hm : (({ maxDeltas := n } : Better).run ops).maxDeltas = n := by
    clear this hinv
    generalize hc : ({ maxDeltas := n } : Better) = c
    have : c.maxDeltas = n := by rw [← hc]
    clear hc
    induction ops generalizing c with
    | nil => simpa [Better.run] using this
    | cons op ops ih =>
      simp only [Better.run, List.foldl_cons]
      apply ih
      cases op <;> simp [Better.step, Better.add_maxDeltas, Better.reset, Better.setMetadata, this]
  omega

/-- the reported sample count is the number of held (accepted, not discarded) samples -/
theorem base_info_counts (n : Nat) (ops : List COp) :
    (({ maxDeltas := n } : Better).run ops).info.2 = ((({ maxDeltas := n } : Better).run ops).samples).length :=
  Better.info_counts_samples _ (Better.run_inv ops _ (Better.fresh_inv n))

/-- a rejected `Add` (capacity, metric count, value types) changes nothing -/
theorem base_rejected_add_noop (c : Better) (d : BDoc) (h : (c.add d).2 ≠ .ok) : (c.add d).1 = c :=
  Better.add_rejected_noop c d h

/-- `Reset` discards every sample; the collector then accepts a first sample like a fresh one -/
theorem base_reset_discards (c : Better) (d : BDoc) :
    c.reset.samples = [] ∧ (c.reset.add d).2 = .ok ∧ (c.reset.add d).1.samples = [(extractDoc d).map (·.1)] := by
  simp [Better.reset, Better.samples, Better.add]

/-- **Batch collector**: an accepted `Add` appends exactly that sample; a rejected one changes
nothing; chunks hold at most N samples and only the last chunk may hold fewer — for every
reachable state (`Batch.Inv` holds initially and is preserved by `Add`; `Reset` re-creates the
initial state). -/
theorem batch_add_appends (b : Batch) (d : BDoc) (hi : b.Inv) (h : (b.add d).2 = .ok) :
    (b.add d).1.samples = b.samples ++ [(extractDoc d).map (·.1)] :=
  Batch.add_ok_appends b d hi h

theorem batch_rejected_add_noop (b : Batch) (d : BDoc) (hi : b.Inv) (h : (b.add d).2 ≠ .ok) :
    (b.add d).1 = b :=
  Batch.add_rejected_noop b d hi h

theorem batch_run_inv (n : Nat) (ds : List BDoc) : ∀ (b0 : Batch), b0.Inv ∧ b0.maxSamples = n →
    (ds.foldl (fun b d => (b.add d).1) b0).Inv ∧ (ds.foldl (fun b d => (b.add d).1) b0).maxSamples = n := by
  induction ds with
  | nil => intro b0 h0; simpa using h0
  | cons d ds ih =>
    intro b0 h0
    simp only [List.foldl_cons]
    apply ih
    refine ⟨Batch.add_inv b0 d h0.1, ?_⟩
    have : (b0.add d).1.maxSamples = b0.maxSamples := by
      unfold Batch.add; split
      · rfl
      · split <;> rfl
    rw [this]; exact h0.2

theorem batch_chunks_bounded_all_histories (n : Nat) (hn : 1 ≤ n) (ds : List BDoc) :
    (∀ c ∈ (ds.foldl (fun b d => (b.add d).1) (Batch.new n)).chunks, c.samples.length ≤ n) ∧
    (∀ c ∈ (ds.foldl (fun b d => (b.add d).1) (Batch.new n)).chunks.dropLast, c.samples.length = n) := by
  have hinv := batch_run_inv n ds (Batch.new n) ⟨Batch.new_inv n hn, rfl⟩
  constructor
  · intro c hc; have := (hinv.1.each c hc).2.2; rw [hinv.2] at this; exact this
  · intro c hc; have := hinv.1.full c hc; rw [hinv.2] at this; exact this

/-! non-vacuity: a concrete history -/
example : (({ maxDeltas := 1 } : Better).run
    [.add (.cons [97] (.int64 1#64) .nil), .add (.cons [97] (.int64 2#64) .nil),
     .add (.cons [97] (.int64 3#64) .nil), .resolve, .info]).samples = [[1#64], [2#64]] := by
  decide

end Ftdc.Props.C07
