package main

import (
	"bytes"
	"compress/zlib"
	"context"
	"encoding/binary"
	"fmt"
	"io"
	"math/rand"
	"strings"
	"time"

	"github.com/evergreen-ci/birch"
	"github.com/mongodb/ftdc"
)

func init() {
	streams["core"] = streamCore
	commands["core"] = cmdCore
}

type safeBuf struct{ bytes.Buffer }

// newCollector builds one of the compressing collectors; streaming ones write to w.
func newCollector(ctor string, n int, w io.Writer) ftdc.Collector {
	if strings.HasPrefix(ctor, "sample0-") {
		// the time-sampling wrapper with a zero interval lets every sample through: transparent, whatever it wraps
		return ftdc.NewSamplingCollector(0, newCollector(ctor[len("sample0-"):], n, w))
	}
	switch ctor {
	case "base":
		return ftdc.NewBaseCollector(n)
	case "batch":
		return ftdc.NewBatchCollector(n)
	case "dynamic":
		return ftdc.NewDynamicCollector(n)
	case "streaming":
		return ftdc.NewStreamingCollector(n, w)
	case "streamingDynamic":
		return ftdc.NewStreamingDynamicCollector(n, w)
	}
	panic("unknown collector " + ctor)
}

func isStreaming(ctor string) bool {
	return strings.HasPrefix(strings.TrimPrefix(ctor, "sample0-"), "streaming")
}

var runStart time.Time

func idString(ms int64) string {
	now := time.Now().UnixNano() / 1e6
	if ms >= runStart.UnixNano()/1e6-1000 && ms <= now+1000 {
		return "NOW"
	}
	return fmt.Sprint(ms)
}

// wireDocs parses an FTDC byte stream with the independent strict parser and zlib and renders
// every top-level document: M:<id>:<hex of doc field> / C:<id>:<hex of inflated payload> /
// X:<why it does not conform>.
func wireDocs(out []byte) []string {
	var res []string
	p := out
	for len(p) > 0 {
		if len(p) < 4 {
			res = append(res, "X:trailing-bytes")
			break
		}
		l := int(int32(binary.LittleEndian.Uint32(p)))
		if l < 5 || l > len(p) {
			res = append(res, "X:bad-length")
			break
		}
		kids, err := parseDocStrict(p[:l])
		p = p[l:]
		if err != nil {
			res = append(res, "X:malformed-document")
			continue
		}
		if len(kids) != 3 || kids[0].Key != "_id" || kids[0].Tag != 0x09 || kids[1].Key != "type" || kids[1].Tag != 0x10 {
			res = append(res, "X:header-fields")
			continue
		}
		id := idString(int64(binary.LittleEndian.Uint64(kids[0].Raw)))
		typ := int32(binary.LittleEndian.Uint32(kids[1].Raw))
		switch {
		case typ == 0 && kids[2].Key == "doc" && kids[2].Tag == 0x03:
			res = append(res, "M:"+id+":"+hx(docBytes(kids[2].Kids)))
		case typ == 1 && kids[2].Key == "data" && kids[2].Tag == 0x05 && kids[2].Raw[4] == 0 && len(kids[2].Raw) >= 9:
			data := kids[2].Raw[5:]
			zr := bytes.NewReader(data[4:])
			z, err := zlib.NewReader(zr)
			if err != nil {
				res = append(res, "X:zlib-header")
				continue
			}
			payload, err := io.ReadAll(z)
			if err != nil {
				res = append(res, "X:zlib-stream")
				continue
			}
			if zr.Len() != 0 {
				res = append(res, "X:trailing-bytes-after-zlib")
				continue
			}
			if int(binary.LittleEndian.Uint32(data)) != len(payload) {
				res = append(res, "X:length-prefix")
				continue
			}
			res = append(res, "C:"+id+":"+hx(payload))
		default:
			res = append(res, "X:type-or-payload-field")
		}
	}
	return res
}

func i64s(vs []int64) string {
	ss := make([]string, len(vs))
	for i, v := range vs {
		ss[i] = fmt.Sprint(v)
	}
	return strings.Join(ss, ",")
}

// chunkTables renders ReadChunks: per chunk `n=<points>;key=v,v,v;key=...`
func chunkTables(ctx context.Context, out []byte) (string, error) {
	it := ftdc.ReadChunks(ctx, bytes.NewReader(out))
	defer it.Close()
	var cs []string
	for it.Next() {
		c := it.Chunk()
		parts := []string{fmt.Sprintf("n=%d", c.Size())}
		for _, m := range c.Metrics {
			parts = append(parts, hx([]byte(m.Key()))+"="+i64s(m.Values))
		}
		cs = append(cs, strings.Join(parts, ";"))
	}
	return strings.Join(cs, "|"), it.Err()
}

func iterDocs(it ftdc.Iterator) ([]string, error) {
	defer it.Close()
	var ds []string
	var kept []*birch.Document // a document handed out by an iterator stays what it was, also after further Next calls
	for it.Next() {
		d := it.Document()
		b, err := d.MarshalBSON()
		if err != nil {
			ds = append(ds, "X:marshal")
			kept = append(kept, nil)
			continue
		}
		ds = append(ds, hx(b))
		kept = append(kept, d)
	}
	err := it.Err()
	for i, d := range kept {
		if d == nil {
			continue
		}
		if b, merr := d.MarshalBSON(); merr != nil || hx(b) != ds[i] {
			ds[i] = "X:changed-after-next"
		}
	}
	return ds, err
}

func errStr(err error) string {
	if err != nil {
		return "err"
	}
	return "ok"
}

// core <ctor> <N> | <hex doc> ...
func cmdCore(o *Out, line string, f []string) {
	sec := sections(f)
	ctor, n := sec[0][0], int(atoi64(sec[0][1]))
	var w safeBuf
	c := newCollector(ctor, n, &w)
	var adds []byte
	var accepted [][]byte
	for _, h := range sec[1] {
		if h == "R" {
			// an intermediate Resolve whose result is discarded: resolving does not change a collector
			if !isStreaming(ctor) {
				_, _ = c.Resolve()
			}
			continue
		}
		b := unhx(h)
		doc, err := birch.ReadDocument(b)
		if err != nil {
			adds = append(adds, 'p')
			continue
		}
		if err := c.Add(doc); err != nil {
			adds = append(adds, 'e')
		} else {
			adds = append(adds, 'o')
			accepted = append(accepted, b)
		}
	}
	var out []byte
	resolve := "ok"
	if isStreaming(ctor) {
		if err := ftdc.FlushCollector(c, &w); err != nil {
			resolve = "err"
		}
		out = w.Bytes()
	} else {
		var err error
		out, err = c.Resolve()
		if err != nil {
			resolve = "err"
		}
	}
	// resolving again yields the same bytes (a snapshot, not a consumption)
	again := "same"
	if !isStreaming(ctor) {
		if out2, err2 := c.Resolve(); (err2 != nil) != (resolve == "err") || !bytes.Equal(out, out2) {
			again = "differs"
		}
	}
	ctx, cancel := context.WithCancel(context.Background())
	defer cancel()
	wire := wireDocs(out)
	tables, terr := chunkTables(ctx, out)
	docs, derr := iterDocs(ftdc.ReadStructuredMetrics(ctx, bytes.NewReader(out)))
	o.emit(line, fmt.Sprintf("adds=%s resolve=%s again=%s wire=[%s] tables=%s[%s] docs=%s[%s]", adds, resolve, again,
		strings.Join(wire, " "), errStr(terr), tables, errStr(derr), strings.Join(docs, " ")))
	o.count("ctor-" + ctor)
	o.count(fmt.Sprintf("ndocs<%d", 4*(1+len(accepted)/4)))
	o.nontrivial(line)

	if again != "same" {
		o.violation(line, "a second Resolve of the unchanged collector does not return the same stream", nil)
	}
	// ---- oracle for C03 (encode direction): the payload is the canonical encoding ----
	for _, wd := range wire {
		if strings.HasPrefix(wd, "X:") {
			o.violation(line, "collector output does not conform to the FTDC layout: "+wd[2:], nil)
			break
		}
		if strings.HasPrefix(wd, "C:") {
			if why := nonCanonical(unhx(wd[strings.LastIndex(wd, ":")+1:])); why != "" {
				o.violation(line, "chunk payload is not the canonical encoding: "+why, nil)
				break
			}
		}
	}

	// ---- oracle for C01: structured documents read back == project(accepted inputs) ----
	if derr != nil {
		o.violation(line, "reading back the collector's own output failed", derr.Error())
		return
	}
	if len(docs) != len(accepted) {
		o.violation(line, "number of documents read back differs from number accepted",
			map[string]int{"read": len(docs), "accepted": len(accepted)})
		return
	}
	for i, b := range accepted {
		kids, err := parseDocStrict(b)
		if err != nil {
			continue // input outside the strict grammar: not an instance of the property
		}
		want := hx(docBytes(project(kids, false)))
		if !datetimesInRange(kids) {
			o.count("oracle-skip-datetime-outside-nanosecond-range")
			continue // outside the property's domain (model and implementation are still compared)
		}
		if docs[i] != want {
			if gk, err := parseDocStrict(unhx(docs[i])); err == nil && onlyF1(gk, project(kids, false), accepted[:i+1]) {
				o.known("F1", line, "timestamp seconds read back scaled: t + 999*t_ref (bson_metric.go startingValue int64(t)*1000)",
					map[string]string{"got": docs[i], "want": want})
				return
			}
			o.violation(line, fmt.Sprintf("document %d read back differs from the input with non-metric leaves removed", i),
				map[string]string{"got": docs[i], "want": want, "input": hx(b)})
			return
		}
	}
}

// onlyF1: got equals want except in the seconds of timestamp leaves, where
// got.t == uint32(want.t + 999*t_r) for the same leaf of an earlier-or-same accepted document r.
func onlyF1(got, want []*Node, accepted [][]byte) bool {
	var refs [][]*Node
	for _, b := range accepted {
		k, err := parseDocStrict(b)
		if err != nil {
			return false
		}
		refs = append(refs, project(k, false))
	}
	return onlyF1rec(got, want, refs)
}

func onlyF1rec(got, want []*Node, refs [][]*Node) bool {
	if len(got) != len(want) {
		return false
	}
	for i := range got {
		g, w := got[i], want[i]
		if g.Key != w.Key || g.Tag != w.Tag {
			return false
		}
		switch g.Tag {
		case 0x03, 0x04:
			var sub [][]*Node
			for _, r := range refs {
				if i < len(r) && r[i].Tag == g.Tag {
					sub = append(sub, r[i].Kids)
				}
			}
			if !onlyF1rec(g.Kids, w.Kids, sub) {
				return false
			}
		case 0x11:
			if !bytes.Equal(g.Raw[:4], w.Raw[:4]) {
				return false
			}
			gt, wt := binary.LittleEndian.Uint32(g.Raw[4:]), binary.LittleEndian.Uint32(w.Raw[4:])
			ok := gt == wt
			for _, r := range refs {
				if i < len(r) && r[i].Tag == 0x11 {
					tr := binary.LittleEndian.Uint32(r[i].Raw[4:])
					if gt == wt+999*tr {
						ok = true
					}
				}
			}
			if !ok {
				return false
			}
		default:
			if !bytes.Equal(g.Raw, w.Raw) {
				return false
			}
		}
	}
	return true
}

var ctors = []string{"base", "batch", "dynamic", "streaming", "streamingDynamic"}

// retypeOne changes the BSON type of one integer-like metric leaf (int32, int64, bool, datetime) to another of them, in place:
// same keys, same metric count, another type - a sample the collectors refuse (a chunk records each type once)
func retypeOne(rng *rand.Rand, nodes []*Node) bool {
	var leaves []*Node
	var walk func(ns []*Node)
	walk = func(ns []*Node) {
		for _, n := range ns {
			switch n.Tag {
			case 0x03, 0x04:
				walk(n.Kids)
			case 0x10, 0x12, 0x08, 0x09:
				leaves = append(leaves, n)
			}
		}
	}
	walk(nodes)
	if len(leaves) == 0 {
		return false
	}
	l := leaves[rng.Intn(len(leaves))]
	tags := []byte{0x10, 0x12, 0x08, 0x09}
	t := tags[rng.Intn(4)]
	for t == l.Tag {
		t = tags[rng.Intn(4)]
	}
	l.Tag = t
	switch t {
	case 0x10:
		l.Raw = u32(uint32(1 + rng.Intn(5)))
	case 0x08:
		l.Raw = []byte{byte(rng.Intn(2))}
	default:
		l.Raw = u64(uint64(1 + rng.Intn(5)))
	}
	return true
}

func coreLine(rng *rand.Rand, ctor string, n int, schema []*Schema, count int) string {
	var hs []string
	retypeAt := -1
	if count > 1 && rng.Intn(6) == 0 {
		retypeAt = 1 + rng.Intn(count-1)
	}
	for i := 0; i < count; i++ {
		if i == retypeAt {
			d := instantiate(rng, schema, i)
			if retypeOne(rng, d) {
				hs = append(hs, hx(docBytes(d)))
			}
		}
		hs = append(hs, hx(docBytes(instantiate(rng, schema, i))))
		if i+1 < count && rng.Intn(12) == 0 {
			hs = append(hs, "R") // an intermediate Resolve
		}
	}
	return fmt.Sprintf("core %s %d | %s", ctor, n, strings.Join(hs, " "))
}

func streamCore(o *Out, rng *rand.Rand, thorough bool, _ []string) {
	runStart = time.Now()
	// fixed regression cases first (corpus)
	ts := func(t, i uint32) []byte { return append(u32(i), u32(t)...) }
	corpus := [][]*Node{
		{{Key: "ts", Tag: 0x11, Raw: ts(5, 7)}},
		{{Key: "a", Tag: 0x03, Kids: []*Node{{Key: "b", Tag: 0x03, Kids: []*Node{{Key: "c", Tag: 0x12, Raw: u64(1)}}}, {Key: "d", Tag: 0x03, Kids: []*Node{{Key: "c", Tag: 0x12, Raw: u64(2)}}}}}},
		{},
		{{Key: "s", Tag: 0x02, Raw: append(u32(2), 'x', 0)}},
		{{Key: "e", Tag: 0x03, Kids: []*Node{}}, {Key: "f", Tag: 0x04, Kids: []*Node{}}},
		{{Key: "v", Tag: 0x04, Kids: []*Node{{Key: "0", Tag: 0x12, Raw: u64(1)}, {Key: "1", Tag: 0x02, Raw: append(u32(2), 'x', 0)}, {Key: "2", Tag: 0x12, Raw: u64(2)}}}},
	}
	for _, kids := range corpus {
		h := hx(docBytes(kids))
		for _, ctor := range ctors {
			run(o, fmt.Sprintf("core %s 3 | %s %s", ctor, h, h))
			run(o, fmt.Sprintf("core %s 1 | %s", ctor, h))
		}
	}
	// exhaustive small delta matrices with entries in {0,+1,-1}: m metrics x n deltas, m*n <= 6 (quick) / 8 (thorough)
	lim := 6
	if thorough {
		lim = 8
	}
	for m := 1; m <= lim; m++ {
		for n := 1; m*n <= lim; n++ {
			total := 1
			for i := 0; i < m*n; i++ {
				total *= 3
			}
			for code := 0; code < total; code++ {
				c := code
				vals := make([][]int64, n+1)
				vals[0] = make([]int64, m)
				for j := 1; j <= n; j++ {
					vals[j] = make([]int64, m)
				}
				for i := 0; i < m; i++ {
					for j := 1; j <= n; j++ {
						d := int64(c%3) - 1
						c /= 3
						vals[j][i] = vals[j-1][i] + d
					}
				}
				var hs []string
				for j := 0; j <= n; j++ {
					kids := []*Node{}
					for i := 0; i < m; i++ {
						kids = append(kids, &Node{Key: fmt.Sprintf("m%d", i), Tag: 0x12, Raw: u64(uint64(vals[j][i]))})
					}
					hs = append(hs, hx(docBytes(kids)))
				}
				ctor := ctors[code%len(ctors)]
				run(o, fmt.Sprintf("core %s %d | %s", ctor, n+1+code%2, strings.Join(hs, " ")))
				o.count("delta-matrix")
			}
		}
	}
	// long chunks of mostly constant metrics: the zero runs make the delta count exceed the payload's byte length
	// (a run of any length costs two or three bytes), and runs cross metric boundaries
	for k, mc := range [][2]int{{2, 16}, {7, 60}, {3, 130}, {1, 300}, {8, 40}, {5, 257}} {
		m, cnt := mc[0], mc[1]
		for variant := 0; variant < 3; variant++ {
			var hs []string
			bump := 1 + rng.Intn(cnt-1)
			for j := 0; j < cnt; j++ {
				kids := []*Node{}
				for i := 0; i < m; i++ {
					v := int64(1000 * (i + 1))
					switch {
					case variant == 1 && i == 0:
						v += int64(j) // one counter, the rest constant
					case variant == 2 && i == m-1 && j >= bump:
						v += 5 // a single step in the last metric
					}
					kids = append(kids, &Node{Key: fmt.Sprintf("m%d", i), Tag: 0x12, Raw: u64(uint64(v))})
				}
				hs = append(hs, hx(docBytes(kids)))
			}
			n := cnt
			if variant == 2 {
				n = cnt/2 + 1
			}
			run(o, fmt.Sprintf("core %s %d | %s", ctors[(k+variant)%len(ctors)], n, strings.Join(hs, " ")))
			o.count("long-constant")
		}
	}
	// large payloads: a small reference document and many samples with large deltas, so that the decompressed payload is
	// several times the reader's buffer sizes (4 KiB bufio, 512-byte document fast paths)
	for k, mc := range [][2]int{{3, 600}, {2, 1100}, {6, 350}} {
		m, cnt := mc[0], mc[1]
		var hs []string
		for j := 0; j < cnt; j++ {
			kids := []*Node{}
			for i := 0; i < m; i++ {
				kids = append(kids, &Node{Key: fmt.Sprintf("m%d", i), Tag: 0x12, Raw: u64(uint64(rng.Int63() - rng.Int63()))})
			}
			hs = append(hs, hx(docBytes(kids)))
		}
		run(o, fmt.Sprintf("core %s %d | %s", ctors[k%len(ctors)], cnt, strings.Join(hs, " ")))
		o.count("large-payload")
	}
	// very deep nesting (beyond any plausible recursion guard)
	for k, depth := range []int{33, 64, 120} {
		run(o, coreLine(rng, ctors[k%len(ctors)], 3, veryDeepSchema(rng, depth), 4))
		o.count("very-deep")
	}
	// random schemas
	ncases := 600
	if thorough {
		ncases = 20000
	}
	for i := 0; i < ncases; i++ {
		schema := genSchema(rng, 0, 4, false, 7)
		count := 1 + rng.Intn(9)
		if rng.Intn(8) == 0 {
			count = 1
		}
		ns := []int{1, 2, 3, 7, count, count + 1}
		n := ns[rng.Intn(len(ns))]
		run(o, coreLine(rng, ctors[rng.Intn(len(ctors))], n, schema, count))
	}
}

// the property covers UTC datetimes "within the range Go can express in nanoseconds"
func datetimesInRange(kids []*Node) bool {
	for _, k := range kids {
		switch k.Tag {
		case 0x03, 0x04:
			if !datetimesInRange(k.Kids) {
				return false
			}
		case 0x09:
			v := int64(binary.LittleEndian.Uint64(k.Raw))
			if v > maxNanoMs || v < -maxNanoMs {
				return false
			}
		}
	}
	return true
}

// nonCanonical decodes the delta stream of a payload with an independent decoder and re-encodes it with
// maximal zero runs; it returns why the payload differs from that canonical form ("" if it does not).
func nonCanonical(p []byte) string {
	if len(p) < 4 {
		return "payload too short"
	}
	l := int(int32(binary.LittleEndian.Uint32(p)))
	if l < 5 || l+8 > len(p) {
		return "reference document / counts missing"
	}
	kids, err := parseDocStrict(p[:l])
	if err != nil {
		return "reference document is not valid BSON"
	}
	nm := int(binary.LittleEndian.Uint32(p[l:]))
	nd := int(binary.LittleEndian.Uint32(p[l+4:]))
	if nm != len(leavesOf(kids, nil, false, "")) {
		return "metric count differs from the reference document"
	}
	body := p[l+8:]
	var ds []uint64
	rest := body
	for len(ds) < nm*nd {
		v, n := binary.Uvarint(rest)
		if n <= 0 {
			return "delta stream truncated"
		}
		rest = rest[n:]
		if v != 0 {
			ds = append(ds, v)
			continue
		}
		z, n := binary.Uvarint(rest)
		if n <= 0 {
			return "delta stream truncated"
		}
		rest = rest[n:]
		for k := uint64(0); k <= z; k++ {
			ds = append(ds, 0)
		}
	}
	if len(ds) != nm*nd {
		return "zero run overshoots the delta count"
	}
	if len(rest) != 0 {
		return "trailing bytes after the delta stream"
	}
	var canon []byte
	for i := 0; i < len(ds); {
		if ds[i] != 0 {
			canon = putUvarint(canon, ds[i])
			i++
			continue
		}
		run := 0
		for i+run < len(ds) && ds[i+run] == 0 {
			run++
		}
		canon = putUvarint(canon, 0)
		canon = putUvarint(canon, uint64(run-1))
		i += run
	}
	if !bytes.Equal(canon, body) {
		return "a zero run is not maximal"
	}
	return ""
}
