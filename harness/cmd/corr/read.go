package main

import (
	"bytes"
	"compress/zlib"
	"context"
	"encoding/binary"
	"fmt"
	"io"
	"math"
	"math/rand"
	"sort"
	"strconv"
	"strings"
	"time"

	"github.com/evergreen-ci/birch"
	"github.com/mongodb/ftdc"
)

func init() {
	commands["read"] = cmdRead
	commands["views"] = cmdViews
	commands["meta"] = cmdMeta
	streams["views"] = streamViews
	streams["wire-dec"] = streamWireDec
	streams["fuzz"] = streamFuzz
	streams["meta"] = streamMeta
}

// inflateTable pre-computes what compress/zlib says about every candidate `data` payload of the
// stream, so that the Lean model (which takes inflate as a parameter) can decode the same bytes.
func inflateTable(stream []byte) string {
	seen := map[string]bool{}
	var entries []string
	p := stream
	for len(p) >= 4 {
		l := int(int32(binary.LittleEndian.Uint32(p)))
		if l < 5 || l > len(p) {
			break
		}
		kids, err := parseDocStrict(p[:l])
		p = p[l:]
		if err != nil {
			continue
		}
		for _, k := range kids {
			if k.Key != "data" || k.Tag != 0x05 {
				continue
			}
			z := k.Raw[5:]
			if k.Raw[4] == 2 {
				z = k.Raw[9:]
			}
			if len(z) < 4 {
				continue
			}
			z = z[4:]
			key := hx(z)
			if seen[key] {
				continue
			}
			seen[key] = true
			zr, err := zlib.NewReader(bytes.NewReader(z))
			if err != nil {
				entries = append(entries, key+"=F")
				continue
			}
			data, err := io.ReadAll(zr)
			flag := "c"
			if err != nil {
				flag = "d"
			}
			entries = append(entries, key+"="+hx(data)+":"+flag)
		}
	}
	return strings.Join(entries, " ")
}

// zlibDamage returns a description of the first metric chunk (type 1, binary data) of a cleanly framed,
// strictly valid document sequence whose payload cannot be inflated to the end without an error.
func zlibDamage(stream []byte) string {
	p := stream
	idx := 0
	for len(p) > 0 {
		if len(p) < 4 {
			return ""
		}
		l := int(int32(binary.LittleEndian.Uint32(p)))
		if l < 5 || l > len(p) {
			return ""
		}
		kids, err := parseDocStrict(p[:l])
		p = p[l:]
		if err != nil {
			return ""
		}
		isMetric, seenType := false, false
		var data []byte
		nData := 0
		for _, k := range kids {
			switch {
			case k.Key == "type" && !seenType:
				seenType = true
				switch k.Tag {
				case 0x10:
					isMetric = int32(binary.LittleEndian.Uint32(k.Raw)) == 1
				case 0x12:
					isMetric = int64(binary.LittleEndian.Uint64(k.Raw)) == 1
				}
			case k.Key == "data":
				nData++
				if k.Tag == 0x05 && k.Raw[4] == 0 && data == nil {
					data = k.Raw[5:]
				}
			}
		}
		if isMetric && nData == 1 && len(data) > 4 {
			zr, err := zlib.NewReader(bytes.NewReader(data[4:]))
			if err != nil {
				return fmt.Sprintf("document %d: %v", idx, err)
			}
			if _, err := io.ReadAll(zr); err != nil {
				return fmt.Sprintf("document %d: %v", idx, err)
			}
		}
		idx++
	}
	return ""
}

func metaHex(d *birch.Document) string {
	if d == nil {
		return "-"
	}
	b, err := d.MarshalBSON()
	if err != nil {
		return "X"
	}
	return hx(b)
}

type chunkObs struct {
	tables []string
	metas  []string
	sizes  []int
	keys   [][]string
	vals   [][][]int64
	err    error
}

func observeChunks(ctx context.Context, stream []byte) chunkObs {
	var ob chunkObs
	it := ftdc.ReadChunks(ctx, bytes.NewReader(stream))
	defer it.Close()
	for it.Next() {
		c := it.Chunk()
		parts := []string{fmt.Sprintf("n=%d", c.Size())}
		var ks []string
		var vs [][]int64
		for _, m := range c.Metrics {
			parts = append(parts, hx([]byte(m.Key()))+"="+i64s(m.Values))
			ks = append(ks, m.Key())
			vs = append(vs, append([]int64{}, m.Values...))
		}
		ob.tables = append(ob.tables, strings.Join(parts, ";"))
		ob.metas = append(ob.metas, metaHex(c.GetMetadata()))
		ob.sizes = append(ob.sizes, c.Size())
		ob.keys = append(ob.keys, ks)
		ob.vals = append(ob.vals, vs)
	}
	ob.err = it.Err()
	return ob
}

// read <hex stream> | <inflate table> [| <expect>]
// expect (optional, used by the generators to state what the property demands of this input):
//
//	malformed            the input is not a well-formed stream: Err must be non-nil
//	good=<k>             at least the first k chunks lie wholly before the damage
//	samples=<hex>,<hex>  (wire-dec) the structured documents the stream encodes
func cmdRead(o *Out, line string, f []string) {
	sec := sections(f)
	stream := unhx(sec[0][0])
	ctx, cancel := context.WithCancel(context.Background())
	defer cancel()
	ob := observeChunks(ctx, stream)
	o.emit(line, fmt.Sprintf("err=%s n=%d tables=[%s] metas=[%s]", errStr(ob.err), len(ob.tables), strings.Join(ob.tables, "|"), strings.Join(ob.metas, " ")))
	o.nontrivial(sec[0][0])

	// every other entry point on the same bytes: termination and error agreement (C04)
	type ep struct {
		name string
		it   ftdc.Iterator
	}
	eps := []ep{
		{"ReadMetrics", ftdc.ReadMetrics(ctx, bytes.NewReader(stream))},
		{"ReadStructuredMetrics", ftdc.ReadStructuredMetrics(ctx, bytes.NewReader(stream))},
		{"ReadMatrix", ftdc.ReadMatrix(ctx, bytes.NewReader(stream))},
		{"ReadSeries", ftdc.ReadSeries(ctx, bytes.NewReader(stream))},
	}
	counts := map[string]int{}
	for _, e := range eps {
		n := 0
		for e.it.Next() {
			n++
		}
		counts[e.name] = n
		err := e.it.Err()
		e.it.Close()
		if (err != nil) != (ob.err != nil) {
			o.violation(line, e.name+" and ReadChunks disagree on whether the input is corrupt",
				map[string]string{"ReadChunks": fmt.Sprint(ob.err), e.name: fmt.Sprint(err)})
		}
	}
	total := 0
	for _, s := range ob.sizes {
		total += s
	}
	if ob.err == nil && (counts["ReadMetrics"] != total || counts["ReadStructuredMetrics"] != total || counts["ReadMatrix"] != len(ob.sizes) || counts["ReadSeries"] != len(ob.sizes)) {
		o.violation(line, "document/matrix/series iterators deliver a different number of items than the chunk table holds", counts)
	}

	// independent of the model and of the generator's expectations: when the stream is a sequence of
	// strictly valid documents and compress/zlib itself reports an error for the payload of a metric
	// chunk (bad header, damaged deflate data, truncated stream, wrong checksum), the damage is in a
	// chunk and must be reported
	if ob.err == nil {
		if what := zlibDamage(stream); what != "" {
			o.violation(line, "a metric chunk whose compressed payload compress/zlib rejects was read without an error", what)
		}
	}

	if len(sec) < 3 {
		return
	}
	for _, ex := range sec[2] {
		switch {
		case ex == "malformed":
			o.count("expect-malformed")
			if ob.err == nil {
				o.violation(line, "input is not a well-formed FTDC stream but Err() is nil after Next() returned false", nil)
			}
		case strings.HasPrefix(ex, "good="):
			k := int(atoi64(ex[5:]))
			if len(ob.tables) < k {
				o.violation(line, "a chunk lying wholly before the first damaged byte was not delivered",
					map[string]int{"delivered": len(ob.tables), "intact": k})
			}
		case strings.HasPrefix(ex, "goodtables="):
			// the intact chunks must be delivered unchanged
			want := strings.Split(ex[len("goodtables="):], "|")
			for i, w := range want {
				if w == "" {
					continue
				}
				if i >= len(ob.tables) || ob.tables[i] != w {
					o.violation(line, fmt.Sprintf("intact chunk %d was not delivered intact", i), nil)
					break
				}
			}
		case strings.HasPrefix(ex, "exact="):
			if k := int(atoi64(ex[6:])); len(ob.tables) != k {
				o.violation(line, "a prefix ending at a document boundary does not decode to exactly the chunks it contains",
					map[string]int{"delivered": len(ob.tables), "contained": k})
			}
		case ex == "wellformed":
			o.count("expect-wellformed")
			if ob.err != nil {
				o.violation(line, "well-formed stream rejected", ob.err.Error())
			}
		case strings.HasPrefix(ex, "samples="):
			var want []string
			if ex != "samples=" {
				want = strings.Split(ex[len("samples="):], ",")
			}
			docs, err := iterDocs(ftdc.ReadStructuredMetrics(ctx, bytes.NewReader(stream)))
			if err != nil {
				o.violation(line, "spec-conformant stream rejected by ReadStructuredMetrics", err.Error())
				break
			}
			if strings.Join(docs, ",") != strings.Join(want, ",") {
				k, dw, dg := -1, "", ""
				for i := 0; i < len(want) || i < len(docs); i++ {
					if i >= len(want) || i >= len(docs) || want[i] != docs[i] {
						k = i
						if i < len(want) {
							dw = want[i]
						}
						if i < len(docs) {
							dg = docs[i]
						}
						break
					}
				}
				if k >= 0 && dw != "" && dg != "" {
					wk, e1 := parseDocStrict(unhx(dw))
					gk, e2 := parseDocStrict(unhx(dg))
					var acc [][]byte
					for _, w := range want[:k+1] {
						acc = append(acc, unhx(w))
					}
					if e1 == nil && e2 == nil && len(docs) == len(want) && onlyF1(gk, wk, acc) {
						o.known("F1", line, "timestamp seconds read back scaled: t + 999*t_ref (bson_metric.go startingValue int64(t)*1000)", nil)
						break
					}
				}
				o.violation(line, "spec-conformant stream decodes to different samples",
					map[string]interface{}{"index": k, "want": dw, "got": dg, "nwant": len(want), "ngot": len(docs)})
			}
		}
	}
}

// views <hex stream> | <inflate table>
func cmdViews(o *Out, line string, f []string) {
	sec := sections(f)
	stream := unhx(sec[0][0])
	ctx, cancel := context.WithCancel(context.Background())
	defer cancel()
	flat, ferr := iterDocs(ftdc.ReadMetrics(ctx, bytes.NewReader(stream)))
	str, serr := iterDocs(ftdc.ReadStructuredMetrics(ctx, bytes.NewReader(stream)))
	mat, merr := iterDocs(ftdc.ReadMatrix(ctx, bytes.NewReader(stream)))
	ser, rerr := iterDocs(ftdc.ReadSeries(ctx, bytes.NewReader(stream)))
	var citer, csiter []string
	it := ftdc.ReadChunks(ctx, bytes.NewReader(stream))
	var keys [][]string
	var vals [][][]int64
	for it.Next() {
		c := it.Chunk()
		d1, _ := iterDocs(c.Iterator(ctx))
		d2, _ := iterDocs(c.StructuredIterator(ctx))
		citer = append(citer, d1...)
		csiter = append(csiter, d2...)
		var ks []string
		var vs [][]int64
		for _, m := range c.Metrics {
			ks = append(ks, m.Key())
			vs = append(vs, append([]int64{}, m.Values...))
		}
		keys = append(keys, ks)
		vals = append(vals, vs)
	}
	it.Close()
	j := func(ds []string) string { return strings.Join(ds, " ") }
	o.emit(line, fmt.Sprintf("flat=%s[%s] struct=%s[%s] citer=[%s] csiter=[%s] matrix=%s[%s] series=%s[%s]",
		errStr(ferr), j(flat), errStr(serr), j(str), j(citer), j(csiter), errStr(merr), j(mat), errStr(rerr), j(ser)))
	o.nontrivial(sec[0][0])

	// a document handed out by an iterator is the caller's: later Next calls do not modify it
	changed := false
	for name, ds := range map[string][]string{"ReadMetrics": flat, "ReadStructuredMetrics": str, "ReadMatrix": mat, "ReadSeries": ser,
		"Chunk.Iterator": citer, "Chunk.StructuredIterator": csiter} {
		for i, d := range ds {
			if strings.HasPrefix(d, "X:") {
				o.violation(line, name+": a document handed out by the iterator was modified by later Next calls, or cannot be serialised ("+d+")", map[string]int{"item": i})
				changed = true
				break
			}
		}
	}
	if changed {
		return
	}
	// ---- oracle for C02 (implementation only): independent path walk over the structured documents ----
	if ferr != nil || serr != nil || merr != nil || rerr != nil {
		o.violation(line, "a reader view failed on a valid stream", nil)
		return
	}
	if j(flat) != j(citer) || j(str) != j(csiter) {
		o.violation(line, "per-chunk iterators disagree with the stream iterators", nil)
	}
	var refs [][]*Node
	for _, td := range topDocs(stream) {
		if td.payload != nil && len(td.payload) >= 4 {
			l := int(binary.LittleEndian.Uint32(td.payload))
			if l <= len(td.payload) {
				if rk, err := parseDocStrict(td.payload[:l]); err == nil {
					refs = append(refs, rk)
				}
			}
		}
	}
	if len(refs) != len(keys) {
		o.violation(line, "number of chunks differs from the number of metric chunks in the stream", nil)
		return
	}
	si := 0
	for ci := range keys {
		n := 0
		if len(vals[ci]) > 0 {
			n = len(vals[ci][0])
		} else {
			// zero-metric chunk: count its samples from the structured view
			n = -1
		}
		// full paths from the first structured document of this chunk (projection keeps metric leaves)
		if si >= len(str) {
			break
		}
		kids, err := parseDocStrict(unhx(str[si]))
		if err != nil {
			o.violation(line, "structured document is not valid BSON", nil)
			return
		}
		_ = kids
		lv := leavesOf(refs[ci], nil, false, "")
		var want []string
		for _, l := range lv {
			want = append(want, strings.Join(l.Path, "."))
		}
		if strings.Join(want, "\x00") != strings.Join(keys[ci], "\x00") {
			o.violation(line, "metric keys are not the dot-joined full paths of the leaves in document order",
				map[string]interface{}{"keys": keys[ci], "paths": want})
			return
		}
		seen := map[string]bool{}
		for _, k := range keys[ci] {
			if seen[k] {
				o.violation(line, "two distinct leaves share a metric key", k)
				return
			}
			seen[k] = true
		}
		if n < 0 {
			// count how many consecutive structured docs have no leaves... chunk size unknown: skip
			return
		}
		// table values vs each view, sample by sample
		for s := 0; s < n; s++ {
			if si+s >= len(str) || si+s >= len(flat) {
				o.violation(line, "views hold fewer samples than the table", nil)
				return
			}
			sk, e1 := parseDocStrict(unhx(str[si+s]))
			fk, e2 := parseDocStrict(unhx(flat[si+s]))
			if e1 != nil || e2 != nil {
				o.violation(line, "view document is not valid BSON", nil)
				return
			}
			sl := leavesOf(sk, nil, false, "")
			if len(sl) != len(keys[ci]) {
				o.violation(line, "structured view has a different number of leaves than the table", nil)
				return
			}
			for m := range sl {
				v := vals[ci][m][s]
				if sl[m].Tag == 0x11 {
					v = int64(uint32(v))
				}
				if sl[m].Val != v || sl[m].Tag != lv[m].Tag {
					o.violation(line, "structured view disagrees with the table", map[string]interface{}{"metric": keys[ci][m], "sample": s})
					return
				}
			}
			// flat: same keys in order; types: timestamp leaves become int64
			if len(fk) != len(keys[ci]) {
				o.violation(line, "flattened view has a different number of fields than the table", nil)
				return
			}
			for m, e := range fk {
				wantTag := lv[m].Tag
				if wantTag == 0x11 {
					wantTag = 0x12
				}
				fl := leavesOf([]*Node{e}, nil, false, "")
				if e.Key != keys[ci][m] || e.Tag != wantTag || len(fl) != 1 || fl[0].Val != vals[ci][m][s] {
					o.violation(line, "flattened view disagrees with the table", map[string]interface{}{"metric": keys[ci][m], "sample": s})
					return
				}
			}
		}
		// matrix and series: one document per chunk
		if ci >= len(mat) || ci >= len(ser) {
			o.violation(line, "matrix/series views hold fewer chunks than the table", nil)
			return
		}
		mk, e1 := parseDocStrict(unhx(mat[ci]))
		rk, e2 := parseDocStrict(unhx(ser[ci]))
		if e1 != nil || e2 != nil {
			o.violation(line, "matrix/series document is not valid BSON", nil)
			return
		}
		// series: one array per metric, same key order, same sample count, original type (timestamps as two int64 series)
		if len(rk) != len(keys[ci]) {
			o.violation(line, "series view has a different number of series than the table",
				map[string]int{"series": len(rk), "metrics": len(keys[ci])})
			return
		}
		for m, e := range rk {
			wantTag := lv[m].Tag
			if wantTag == 0x11 {
				wantTag = 0x12
			}
			if e.Key != keys[ci][m] || e.Tag != 0x04 || len(e.Kids) != n {
				o.violation(line, "series view: wrong key order or sample count", map[string]interface{}{"pos": m, "key": e.Key, "want": keys[ci][m]})
				return
			}
			for s, x := range e.Kids {
				xl := leavesOf([]*Node{x}, nil, false, "")
				if x.Tag != wantTag || len(xl) != 1 || xl[0].Val != vals[ci][m][s] {
					o.violation(line, "series view disagrees with the table", map[string]interface{}{"metric": e.Key, "sample": s})
					return
				}
			}
		}
		// matrix: timestamps collapsed into one array of timestamps
		mi := 0
		for m := 0; m < len(keys[ci]); m++ {
			if mi >= len(mk) {
				o.violation(line, "matrix view has fewer series than the table", nil)
				return
			}
			e := mk[mi]
			mi++
			if e.Key != keys[ci][m] || e.Tag != 0x04 || len(e.Kids) != n {
				o.violation(line, "matrix view: wrong key order or sample count", map[string]interface{}{"pos": m, "key": e.Key, "want": keys[ci][m]})
				return
			}
			for s, x := range e.Kids {
				xl := leavesOf([]*Node{x}, nil, false, "")
				if x.Tag != lv[m].Tag {
					o.violation(line, "matrix view lost the original BSON type", map[string]interface{}{"metric": e.Key})
					return
				}
				if lv[m].Tag == 0x11 {
					if len(xl) != 2 || xl[0].Val != int64(uint32(vals[ci][m][s])) || xl[1].Val != int64(uint32(vals[ci][m+1][s])) {
						o.violation(line, "matrix view disagrees with the table (timestamp)", map[string]interface{}{"metric": e.Key, "sample": s})
						return
					}
				} else if len(xl) != 1 || xl[0].Val != vals[ci][m][s] {
					o.violation(line, "matrix view disagrees with the table", map[string]interface{}{"metric": e.Key, "sample": s})
					return
				}
			}
			if lv[m].Tag == 0x11 {
				m++
			}
		}
		si += n
	}
}

// ---------- stream builders ----------------------------------------------------------------

// collect runs documents through a real collector and returns the FTDC bytes.
func collect(ctor string, n int, meta []byte, docs [][]byte) []byte {
	var w safeBuf
	c := newCollector(ctor, n, &w)
	if meta != nil {
		d, _ := birch.ReadDocument(meta)
		_ = c.SetMetadata(d)
	}
	for _, b := range docs {
		d, err := birch.ReadDocument(b)
		if err != nil {
			panic(err)
		}
		_ = c.Add(d)
	}
	if isStreaming(ctor) {
		_ = ftdc.FlushCollector(c, &w)
		return w.Bytes()
	}
	out, _ := c.Resolve()
	return out
}

func genDocs(rng *rand.Rand, schema []*Schema, count int) [][]byte {
	var out [][]byte
	for i := 0; i < count; i++ {
		out = append(out, docBytes(instantiate(rng, schema, i)))
	}
	return out
}

// deep schemas: nesting >= 2, sibling sub-documents at equal depth, arrays in documents in arrays
// veryDeepSchema: a chain of `depth` nested sub-documents with metric leaves at the top, at the bottom and at a few
// levels in between (deeper than any recursion guard one might add: 33, 64, 100)
func veryDeepSchema(rng *rand.Rand, depth int) []*Schema {
	cur := []*Schema{leafSchema(rng, "bottom", 10)}
	for l := depth - 1; l >= 0; l-- {
		kids := []*Schema{{Key: fmt.Sprintf("d%d", l), Tag: 0x03, Kids: cur}}
		if l%16 == 0 {
			kids = append(kids, leafSchema(rng, fmt.Sprintf("l%d", l), 10))
		}
		cur = kids
	}
	return append([]*Schema{leafSchema(rng, "top", 10)}, cur...)
}

func genDeepSchema(rng *rand.Rand) []*Schema {
	leaf := func(k string) *Schema { return leafSchema(rng, k, 9) }
	sub := func(k string, kids ...*Schema) *Schema { return &Schema{Key: k, Tag: 0x03, Kids: kids} }
	arr := func(k string, kids ...*Schema) *Schema {
		for i, c := range kids {
			c.Key = fmt.Sprint(i)
		}
		return &Schema{Key: k, Tag: 0x04, Kids: kids}
	}
	switch rng.Intn(6) {
	case 5: // empty field names are legal BSON: leading, inner and trailing empty segments
		return []*Schema{sub("", leaf("n"), sub("", leaf("x"), leaf(""))), leaf("n"), sub("a", sub("", leaf("y")), leaf(""))}
	case 0: // siblings at depth 4 (shared slice capacity in the unrepaired code)
		return []*Schema{sub("a", sub("b", sub("c", sub("d", leaf("x")), sub("e", leaf("x")), sub("f", leaf("y"), leaf("z"))), sub("g", leaf("x"))))}
	case 1:
		return []*Schema{sub("a", sub("b", leaf("c")), sub("d", leaf("c"))), leaf("t"), sub("z", sub("b", leaf("c")))}
	case 2:
		return []*Schema{arr("v", sub("0", arr("w", leaf("0"), sub("1", leaf("q"))), leaf("k")), leaf("1")), leaf("n")}
	case 3:
		return []*Schema{sub("o", arr("l", sub("0", leaf("a"), leaf("b")), sub("1", leaf("a"), leaf("b")))), sub("p", sub("o", leaf("a")))}
	}
	return genSchema(rng, 0, 4, false, 8)
}

// arraysOfDocsSchema: arrays whose members are documents that hold arrays of documents, below nested documents:
// {a:{b:{outer:[{x, inner:[{y},{y}], z}, ...]}}} with random widths (paths of members share prefixes at several depths)
func arraysOfDocsSchema(rng *rand.Rand) []*Schema {
	leaf := func(k string) *Schema { return &Schema{Key: k, Tag: 0x12, Gen: int64Gen(rng)} }
	innerArr := func() *Schema {
		var ms []*Schema
		for j := 0; j < 1+rng.Intn(3); j++ {
			ms = append(ms, &Schema{Key: strconv.Itoa(j), Tag: 0x03, Kids: []*Schema{leaf("y")}})
		}
		return &Schema{Key: "inner", Tag: 0x04, Kids: ms}
	}
	var members []*Schema
	for j := 0; j < 1+rng.Intn(3); j++ {
		kids := []*Schema{leaf("x"), innerArr()}
		if rng.Intn(2) == 0 {
			kids = []*Schema{innerArr(), leaf("x")}
		}
		if rng.Intn(2) == 0 {
			kids = append(kids, leaf("z"))
		}
		members = append(members, &Schema{Key: strconv.Itoa(j), Tag: 0x03, Kids: kids})
	}
	s := &Schema{Key: "outer", Tag: 0x04, Kids: members}
	for d := rng.Intn(4); d > 0; d-- {
		s = &Schema{Key: []string{"a", "b", "c"}[d%3], Tag: 0x03, Kids: []*Schema{s}}
	}
	return []*Schema{leaf("t"), s}
}

// renameOne: a copy of the schema in which one randomly chosen node (never an array element) has another name
func renameOne(rng *rand.Rand, schema []*Schema) ([]*Schema, bool) {
	var nodes []*Schema
	var cp func(ss []*Schema, inArray bool) []*Schema
	cp = func(ss []*Schema, inArray bool) []*Schema {
		var out []*Schema
		for _, s := range ss {
			c := *s
			c.Kids = cp(s.Kids, s.Tag == 0x04)
			out = append(out, &c)
			if !inArray {
				nodes = append(nodes, &c)
			}
		}
		return out
	}
	out := cp(schema, false)
	if len(nodes) == 0 {
		return nil, false
	}
	// prefer enclosing documents: their name is only in the paths of the leaves below them
	var inner []*Schema
	for _, n := range nodes {
		if n.Tag == 0x03 || n.Tag == 0x04 {
			inner = append(inner, n)
		}
	}
	pick := nodes[rng.Intn(len(nodes))]
	if len(inner) > 0 && rng.Intn(3) != 0 {
		pick = inner[rng.Intn(len(inner))]
	}
	pick.Key = pick.Key + "_r"
	return out, true
}

func streamViews(o *Out, rng *rand.Rand, thorough bool, _ []string) {
	runStart = time.Now()
	n := 250
	if thorough {
		n = 8000
	}
	for i := 0; i < n; i++ {
		var schema []*Schema
		if i%2 == 0 {
			schema = genDeepSchema(rng)
		} else {
			schema = genSchema(rng, 0, 4, false, 8)
		}
		if i%50 == 7 {
			schema = veryDeepSchema(rng, 33+rng.Intn(80))
		}
		if i%25 == 11 {
			schema = arraysOfDocsSchema(rng)
		}
		count := 1 + rng.Intn(7)
		if i%50 == 19 {
			count = 210 + rng.Intn(200) // more samples than any of the iterators' buffers (100 + 100 slots)
		}
		docs := genDocs(rng, schema, count)
		csize := 1 + rng.Intn(4)
		if count > 200 {
			csize = count // one long chunk
		}
		stream := collect(ctors[1+rng.Intn(4)], csize, nil, docs)
		if rng.Intn(4) == 0 {
			// a second schema in the same stream
			docs2 := genDocs(rng, genDeepSchema(rng), 1+rng.Intn(3))
			stream = append(stream, collect("batch", 2, nil, docs2)...)
		}
		if i%3 == 1 {
			// the same schema again with ONE name changed (a leaf, or an enclosing sub-document: same leaf names, same
			// depths, same types, same count): names cached from the previous chunk are stale
			if s2, ok := renameOne(rng, schema); ok {
				stream = append(stream, collect("batch", 1+rng.Intn(3), nil, genDocs(rng, s2, 1+rng.Intn(4)))...)
				o.count("views-renamed-node")
			}
		}
		run(o, fmt.Sprintf("views %s | %s", hx(stream), inflateTable(stream)))
		o.count("views")
	}
}

// ---------- C03 decode direction: an independent spec-conformant encoder ---------------------

type refEncOpts struct {
	splitRuns    bool // split zero runs at random points
	typeAs       byte // BSON number type of the `type` field: 0x10, 0x12, 0x01
	unknownTypes bool // interleave documents of unknown type
	metaEvery    int  // interleave metadata documents
	level        int  // zlib level
	extraFields  bool // additional top-level fields
}

func putUvarint(buf []byte, v uint64) []byte {
	var tmp [10]byte
	n := binary.PutUvarint(tmp[:], v)
	return append(buf, tmp[:n]...)
}

// refEncodeChunk encodes samples (same schema; leaves via the independent walker) as one metric chunk.
func refEncodeChunk(rng *rand.Rand, docs [][]byte, opt refEncOpts, id int64) []byte {
	ref := docs[0]
	var cols [][]int64
	for j, d := range docs {
		kids, err := parseDocStrict(d)
		if err != nil {
			panic(err)
		}
		lv := leavesOf(kids, nil, false, "")
		if j == 0 {
			cols = make([][]int64, len(lv))
		}
		for i, l := range lv {
			cols[i] = append(cols[i], l.Val)
		}
	}
	payload := append([]byte{}, ref...)
	payload = append(payload, u32(uint32(len(cols)))...)
	payload = append(payload, u32(uint32(len(docs)-1))...)
	// metric-major deltas
	var ds []uint64
	for _, c := range cols {
		for j := 1; j < len(c); j++ {
			ds = append(ds, uint64(c[j]-c[j-1]))
		}
	}
	for i := 0; i < len(ds); {
		if ds[i] != 0 {
			payload = putUvarint(payload, ds[i])
			i++
			continue
		}
		run := 0
		for i+run < len(ds) && ds[i+run] == 0 {
			run++
		}
		if opt.splitRuns && run > 1 {
			run = 1 + rng.Intn(run)
		}
		payload = putUvarint(payload, 0)
		payload = putUvarint(payload, uint64(run-1))
		i += run
	}
	var zb bytes.Buffer
	zb.Write(u32(uint32(len(payload))))
	zw, _ := zlib.NewWriterLevel(&zb, opt.level)
	zw.Write(payload)
	zw.Close()
	bin := append(u32(uint32(zb.Len())), 0)
	bin = append(bin, zb.Bytes()...)
	typ := &Node{Key: "type", Tag: opt.typeAs}
	switch opt.typeAs {
	case 0x10:
		typ.Raw = u32(1)
	case 0x12:
		typ.Raw = u64(1)
	default:
		typ.Raw = u64(0x3FF0000000000000)
	}
	kids := []*Node{{Key: "_id", Tag: 0x09, Raw: u64(uint64(id))}, typ, {Key: "data", Tag: 0x05, Raw: bin}}
	if opt.extraFields {
		kids = append([]*Node{{Key: "extra", Tag: 0x10, Raw: u32(7)}}, kids...)
	}
	return docBytes(kids)
}

func refMetaDoc(opt refEncOpts, id int64, inner []*Node) []byte {
	typ := &Node{Key: "type", Tag: opt.typeAs}
	switch opt.typeAs {
	case 0x10:
		typ.Raw = u32(0)
	case 0x12:
		typ.Raw = u64(0)
	default:
		typ.Raw = u64(0)
		if id%2 == 0 {
			typ.Raw = u64(0x8000000000000000) // -0.0 is numerically zero
		}
	}
	return docBytes([]*Node{{Key: "_id", Tag: 0x09, Raw: u64(uint64(id))}, typ, {Key: "doc", Tag: 0x03, Kids: inner}})
}

func refUnknownDoc(rng *rand.Rand, id int64) []byte {
	t := int32(2 + rng.Intn(8))
	if rng.Intn(3) == 0 {
		t = -1
	}
	kids := []*Node{{Key: "_id", Tag: 0x09, Raw: u64(uint64(id))}, {Key: "type", Tag: 0x10, Raw: u32(uint32(t))}}
	switch rng.Intn(4) {
	case 0:
		// a type that is a number but neither 0 nor 1: fractional and other doubles, large int64 values
		dbls := []float64{0.5, 0.25, -0.5, 0.999, 1.5, 1.0000000001, 2, -1, 1e-300, math.NaN(), math.Inf(1), 4294967296}
		kids[1] = &Node{Key: "type", Tag: 0x01, Raw: u64(math.Float64bits(dbls[rng.Intn(len(dbls))]))}
	case 1:
		i64s := []int64{2, -1, 1 << 32, 1<<32 + 1, 256, math.MinInt64}
		kids[1] = &Node{Key: "type", Tag: 0x12, Raw: u64(uint64(i64s[rng.Intn(len(i64s))]))}
	}
	if rng.Intn(3) == 0 {
		// it carries what a metadata document or a chunk would carry: it is still neither
		kids = append(kids, sub("doc", i64n("foreign", 7)))
	}
	if rng.Intn(2) == 0 {
		kids = append(kids, &Node{Key: "data", Tag: 0x02, Raw: append(u32(2), 'x', 0)})
	}
	if rng.Intn(4) == 0 { // no type field at all
		kids = kids[:1]
	}
	return docBytes(kids)
}

func streamWireDec(o *Out, rng *rand.Rand, thorough bool, _ []string) {
	runStart = time.Now()
	n := 400
	if thorough {
		n = 12000
	}
	for i := 0; i < n; i++ {
		opt := refEncOpts{splitRuns: rng.Intn(2) == 0, typeAs: []byte{0x10, 0x12, 0x01}[rng.Intn(3)],
			unknownTypes: rng.Intn(2) == 0, metaEvery: rng.Intn(3), level: []int{zlib.NoCompression, zlib.BestSpeed, zlib.DefaultCompression, zlib.BestCompression}[rng.Intn(4)],
			extraFields: rng.Intn(4) == 0}
		var stream []byte
		var want []string
		nchunks := 1 + rng.Intn(3)
		for c := 0; c < nchunks; c++ {
			var schema []*Schema
			if rng.Intn(3) == 0 {
				// sparse metrics: long zero runs crossing metric boundaries
				schema = nil
				for k := 0; k < 1+rng.Intn(6); k++ {
					g := int64Gen(rand.New(rand.NewSource(int64(rng.Intn(3)))))
					_ = g
					base := rng.Int63()
					mode := rng.Intn(3)
					schema = append(schema, &Schema{Key: fmt.Sprintf("m%d", k), Tag: 0x12, Gen: func(r *rand.Rand, i int) []byte {
						if mode == 0 || (mode == 1 && i < 3) {
							return u64(uint64(base))
						}
						return u64(uint64(base + int64(i)))
					}})
				}
			} else {
				schema = genSchema(rng, 0, 4, false, 8)
			}
			count := 1 + rng.Intn(8)
			if rng.Intn(6) == 0 {
				// long chunks: with sparse metrics the delta count exceeds the payload's byte length
				count = []int{16, 40, 100, 130, 300}[rng.Intn(5)]
			}
			docs := genDocs(rng, schema, count)
			if opt.metaEvery > 0 && c%opt.metaEvery == 0 {
				stream = append(stream, refMetaDoc(opt, int64(1000+c), instantiate(rng, genSchema(rng, 0, 3, false, 5), 0))...)
			}
			if opt.unknownTypes {
				stream = append(stream, refUnknownDoc(rng, int64(c))...)
			}
			stream = append(stream, refEncodeChunk(rng, docs, opt, int64(1600000000000+c))...)
			for _, d := range docs {
				kids, _ := parseDocStrict(d)
				if !datetimesInRange(kids) {
					want = nil
					goto skip
				}
				want = append(want, hx(docBytes(project(kids, false))))
			}
		}
		if opt.unknownTypes {
			stream = append(stream, refUnknownDoc(rng, 99)...)
		}
		run(o, fmt.Sprintf("read %s | %s | samples=%s", hx(stream), inflateTable(stream), strings.Join(want, ",")))
		o.count(fmt.Sprintf("wire-dec-type%02x", opt.typeAs))
		continue
	skip:
		run(o, fmt.Sprintf("read %s | %s", hx(stream), inflateTable(stream)))
		o.count("wire-dec-outside-datetime-domain")
	}
}

// ---------- C04: mutants of valid streams, run in an isolated child ---------------------------

func rebuildChunk(id, typ int32, payload []byte, lenPrefix int64, zdata []byte) []byte {
	var zb bytes.Buffer
	if lenPrefix < 0 {
		lenPrefix = int64(len(payload))
	}
	zb.Write(u32(uint32(lenPrefix)))
	if zdata != nil {
		zb.Write(zdata)
	} else {
		zw := zlib.NewWriter(&zb)
		zw.Write(payload)
		zw.Close()
	}
	bin := append(u32(uint32(zb.Len())), 0)
	bin = append(bin, zb.Bytes()...)
	return docBytes([]*Node{{Key: "_id", Tag: 0x09, Raw: u64(uint64(id))}, {Key: "type", Tag: 0x10, Raw: u32(uint32(typ))}, {Key: "data", Tag: 0x05, Raw: bin}})
}

// hugeCounts: some decodable payload declares more than 65536 deltas per metric.
func hugeCounts(stream []byte) bool {
	for _, td := range topDocs(stream) {
		p := td.payload
		if len(p) < 4 {
			continue
		}
		l := int(int32(binary.LittleEndian.Uint32(p)))
		if l < 5 || l+8 > len(p) {
			continue
		}
		if binary.LittleEndian.Uint32(p[l+4:]) > 1<<16 {
			return true
		}
	}
	return false
}

type topDoc struct {
	off, l  int
	payload []byte // inflated payload when it is a chunk
}

func topDocs(stream []byte) []topDoc {
	var out []topDoc
	off := 0
	for off+4 <= len(stream) {
		l := int(int32(binary.LittleEndian.Uint32(stream[off:])))
		if l < 5 || off+l > len(stream) {
			break
		}
		td := topDoc{off: off, l: l}
		if kids, err := parseDocStrict(stream[off : off+l]); err == nil {
			for _, k := range kids {
				if k.Key == "data" && k.Tag == 0x05 && len(k.Raw) > 9 {
					if zr, err := zlib.NewReader(bytes.NewReader(k.Raw[9:])); err == nil {
						td.payload, _ = io.ReadAll(zr)
					}
				}
			}
		}
		out = append(out, td)
		off += l
	}
	return out
}

func streamFuzz(o *Out, rng *rand.Rand, thorough bool, _ []string) {
	runStart = time.Now()
	var lines []string
	add := func(stream []byte, expect string) {
		if hugeCounts(stream) {
			// a sample count in the billions makes the decoder loop (and allocate) for minutes: that is
			// neither a crash nor "forever", and the watchdog could not tell; not explored (DESIGN section 6)
			o.count("skipped-huge-sample-count")
			return
		}
		l := fmt.Sprintf("read %s | %s", hx(stream), inflateTable(stream))
		if expect != "" {
			l += " | " + expect
		}
		lines = append(lines, l)
	}
	nbase := 3
	if thorough {
		nbase = 25
	}
	for b := 0; b < nbase; b++ {
		schema := genSchema(rng, 0, 3, false, 8)
		if b == 0 {
			schema = genDeepSchema(rng)
		}
		if b == 1 {
			schema = veryDeepSchema(rng, 33+rng.Intn(40))
		}
		if b == 2 {
			schema = allTypesSchema()
		}
		docs := genDocs(rng, schema, 2+rng.Intn(5))
		var meta []byte
		if b%2 == 0 {
			meta = docBytes(instantiate(rng, genSchema(rng, 0, 2, false, 5), 0))
		}
		if b == 2 {
			meta = docBytes(instantiate(rng, allTypesSchema(), 0))
		}
		stream := collect("batch", 2, meta, docs)
		tds := topDocs(stream)
		ctx, cancel := context.WithCancel(context.Background())
		base := observeChunks(ctx, stream)
		cancel()
		// chunk index that starts at or after each top-level document
		chunksBefore := func(off int) int {
			n := 0
			for _, td := range tds {
				if td.off+td.l <= off && td.payload != nil {
					n++
				}
			}
			return n
		}
		goodTables := func(k int) string {
			if k > len(base.tables) {
				k = len(base.tables)
			}
			return "goodtables=" + strings.Join(base.tables[:k], "|")
		}
		add(stream, "wellformed")
		// every prefix
		bound := map[int]bool{0: true}
		for _, td := range tds {
			bound[td.off+td.l] = true
		}
		for k := 0; k < len(stream); k++ {
			if bound[k] {
				add(stream[:k], "wellformed "+goodTables(chunksBefore(k)))
			} else {
				add(stream[:k], "malformed "+goodTables(chunksBefore(k)))
			}
		}
		// single-byte substitution / insertion / deletion at every offset of the outer documents
		step := 1
		if !thorough && len(stream) > 400 {
			step = len(stream) / 400
		}
		for k := 0; k < len(stream); k += step {
			good := goodTables(chunksBefore(k))
			m := append([]byte{}, stream...)
			m[k] ^= byte(1 + rng.Intn(255))
			add(m, good)
			m2 := append([]byte{}, stream...)
			m2[k] = []byte{0, 0xff, 0x7f, 0x80, 1, 5}[rng.Intn(6)]
			if m2[k] != stream[k] {
				add(m2, good)
			}
			ins := append(append(append([]byte{}, stream[:k]...), byte(rng.Intn(256))), stream[k:]...)
			add(ins, good)
			del := append(append([]byte{}, stream[:k]...), stream[k+1:]...)
			add(del, good)
		}
		// one length field of a document claims more or fewer bytes than its parts: every length field
		// of every outer document (metadata included), every other length left consistent
		for _, td := range tds {
			good := goodTables(chunksBefore(td.off))
			for _, m := range lenMutants(stream[td.off : td.off+td.l]) {
				ex := good
				if _, err := parseDocStrict(m); err != nil {
					ex = "malformed " + good // the harness's own strict parser refuses the document
				}
				add(append(append(append([]byte{}, stream[:td.off]...), m...), stream[td.off+td.l:]...), ex)
				o.count("length-field-mutants-outer")
			}
		}
		// mutations of the decompressed payload (re-compressed so that zlib does not mask them)
		for ti, td := range tds {
			if td.payload == nil {
				continue
			}
			pre, post := stream[:td.off], stream[td.off+td.l:]
			good := goodTables(chunksBefore(td.off))
			mk := func(p []byte, lenPrefix int64, z []byte) []byte {
				return append(append(append([]byte{}, pre...), rebuildChunk(int32(ti), 1, p, lenPrefix, z)...), post...)
			}
			p := td.payload
			pstep := 1
			if !thorough && len(p) > 200 {
				pstep = len(p) / 200
			}
			for k := 0; k < len(p); k += pstep {
				m := append([]byte{}, p...)
				m[k] ^= byte(1 + rng.Intn(255))
				add(mk(m, -1, nil), good)
				add(mk(append(append(append([]byte{}, p[:k]...), byte(rng.Intn(256))), p[k:]...), -1, nil), good)
				add(mk(append(append([]byte{}, p[:k]...), p[k+1:]...), -1, nil), good)
				add(mk(p[:k], -1, nil), "malformed "+good) // truncated payload: counts/varints missing
			}
			// perturbed count fields
			refLen := int(binary.LittleEndian.Uint32(p))
			// the same for the reference document
			for _, m := range lenMutants(p[:refLen]) {
				ex := good
				if _, err := parseDocStrict(m); err != nil {
					ex = "malformed " + good
				}
				add(mk(append(append([]byte{}, m...), p[refLen:]...), -1, nil), ex)
				o.count("length-field-mutants-reference")
			}
			for _, field := range []int{refLen, refLen + 4} {
				for _, v := range []uint32{0, 1, 3, 4, 5, 1 << 31, 1<<31 - 1, 1<<32 - 1} {
					cur := binary.LittleEndian.Uint32(p[field:])
					if v == cur {
						continue
					}
					if field == refLen+4 && v > 1<<20 {
						continue // sample counts beyond memory: allocation failure is not modelled (DESIGN §6)
					}
					m := append([]byte{}, p...)
					binary.LittleEndian.PutUint32(m[field:], v)
					ex := good
					if field == refLen {
						ex = "malformed " + good // metric count differs from the reference document
					}
					add(mk(m, -1, nil), ex)
				}
				for _, d := range []int32{1, -1} {
					cur := int32(binary.LittleEndian.Uint32(p[field:]))
					if cur+d < 0 {
						continue
					}
					m := append([]byte{}, p...)
					binary.LittleEndian.PutUint32(m[field:], uint32(cur+d))
					ex := good
					if field == refLen {
						ex = "malformed " + good
					}
					add(mk(m, -1, nil), ex)
				}
			}
			// reference document size word
			for _, v := range []uint32{0, 1, 3, 4, 5, uint32(refLen) - 1, uint32(refLen) + 1, 1 << 31, 1<<32 - 1} {
				m := append([]byte{}, p...)
				binary.LittleEndian.PutUint32(m, v)
				add(mk(m, -1, nil), good)
			}
			// bad compression: corrupt header, corrupt body, bad checksum, truncated zlib stream
			var zb bytes.Buffer
			zw := zlib.NewWriter(&zb)
			zw.Write(p)
			zw.Close()
			z := zb.Bytes()
			for _, k := range []int{0, 1, 2, len(z) / 2, len(z) - 5, len(z) - 1} {
				if k < 0 || k >= len(z) {
					continue
				}
				m := append([]byte{}, z...)
				m[k] ^= 0x5a
				ex := good
				if k <= 1 || k >= len(z)-4 {
					ex = "malformed " + good // header or checksum damaged
				}
				add(mk(p, -1, m), ex)
			}
			for _, k := range []int{0, 1, 2, len(z) / 2, len(z) - 1} {
				add(mk(p, -1, z[:k]), "malformed "+good)
			}
			// data field: missing, short, retyped
			for _, alt := range [][]*Node{
				{{Key: "_id", Tag: 0x09, Raw: u64(1)}, {Key: "type", Tag: 0x10, Raw: u32(1)}},
				{{Key: "_id", Tag: 0x09, Raw: u64(1)}, {Key: "type", Tag: 0x10, Raw: u32(1)}, {Key: "data", Tag: 0x05, Raw: append(u32(2), 0, 1, 2)}},
				{{Key: "_id", Tag: 0x09, Raw: u64(1)}, {Key: "type", Tag: 0x10, Raw: u32(1)}, {Key: "data", Tag: 0x05, Raw: append(u32(0), 0)}},
				{{Key: "_id", Tag: 0x09, Raw: u64(1)}, {Key: "type", Tag: 0x10, Raw: u32(1)}, {Key: "data", Tag: 0x05, Raw: append(u32(4), 0, 9, 0, 0, 0)}},
				{{Key: "_id", Tag: 0x09, Raw: u64(1)}, {Key: "type", Tag: 0x10, Raw: u32(1)}, {Key: "data", Tag: 0x02, Raw: append(u32(3), 'x', 'x', 0)}},
				{{Key: "_id", Tag: 0x09, Raw: u64(1)}, {Key: "type", Tag: 0x10, Raw: u32(1)}, {Key: "data", Tag: 0x12, Raw: u64(5)}},
				{{Key: "_id", Tag: 0x09, Raw: u64(1)}, {Key: "type", Tag: 0x10, Raw: u32(1)}, {Key: "data", Tag: 0x03, Kids: []*Node{}}},
				{{Key: "_id", Tag: 0x09, Raw: u64(1)}, {Key: "type", Tag: 0x10, Raw: u32(1)}, {Key: "data", Tag: 0x0A, Raw: []byte{}}},
				{{Key: "_id", Tag: 0x02, Raw: append(u32(2), 'x', 0)}, {Key: "type", Tag: 0x12, Raw: u64(1)}, {Key: "data", Tag: 0x08, Raw: []byte{1}}},
			} {
				add(append(append(append([]byte{}, pre...), docBytes(alt)...), post...), "malformed "+good)
			}
		}
		// outer size words
		for _, td := range tds {
			good := goodTables(chunksBefore(td.off))
			for _, v := range []uint32{0, 1, 3, 4, 5, uint32(td.l) - 1, uint32(td.l) + 1, 1<<31 - 1, 1 << 31, 1<<32 - 1} {
				m := append([]byte{}, stream...)
				binary.LittleEndian.PutUint32(m[td.off:], v)
				ex := good
				if v < 5 || int(v) > len(stream)-td.off || v >= 1<<31 {
					ex = "malformed " + good
				}
				add(m, ex)
			}
		}
		// seeded random multi-byte mutation
		nr := 200
		if thorough {
			nr = 3000
		}
		for k := 0; k < nr; k++ {
			m := append([]byte{}, stream...)
			first := len(m)
			for j := 0; j < 1+rng.Intn(4); j++ {
				pos := rng.Intn(len(m))
				if pos < first {
					first = pos
				}
				m[pos] = byte(rng.Intn(256))
			}
			add(m, goodTables(chunksBefore(first)))
		}
	}
	sort.SliceStable(lines, func(i, j int) bool { return false })
	o.count(fmt.Sprintf("mutants"))
	runIsolated(o, lines, 20*time.Second)
}

// ---------- C11: metadata ---------------------------------------------------------------------

// meta <hex stream> | <inflate table>
// observation: for every chunk and for every item of the document/matrix/series iterators the
// index (in stream order, counting type-0 documents from 0) of the metadata document reported, -1 = nil.
func cmdMeta(o *Out, line string, f []string) {
	sec := sections(f)
	stream := unhx(sec[0][0])
	ctx, cancel := context.WithCancel(context.Background())
	defer cancel()
	// independent scan: the metadata documents of the stream and, per chunk, the latest one before it
	var metas []string
	var wantChunk []int
	var chunkSizes []int
	for _, td := range topDocs(stream) {
		kids, err := parseDocStrict(stream[td.off : td.off+td.l])
		if err != nil {
			continue
		}
		var typ *Node
		for _, k := range kids {
			if k.Key == "type" {
				typ = k
			}
		}
		if typ == nil {
			continue
		}
		isZero, isOne := false, false
		switch typ.Tag {
		case 0x10:
			v := int32(binary.LittleEndian.Uint32(typ.Raw))
			isZero, isOne = v == 0, v == 1
		case 0x12:
			v := int64(binary.LittleEndian.Uint64(typ.Raw))
			isZero, isOne = v == 0, v == 1
		case 0x01:
			v := binary.LittleEndian.Uint64(typ.Raw)
			isZero, isOne = v == 0 || v == 1<<63, v == 0x3FF0000000000000
		}
		if isZero {
			metas = append(metas, hx(stream[td.off:td.off+td.l]))
		} else if isOne && td.payload != nil {
			w := len(metas) - 1
			wantChunk = append(wantChunk, w)
			refLen := int(binary.LittleEndian.Uint32(td.payload))
			chunkSizes = append(chunkSizes, int(binary.LittleEndian.Uint32(td.payload[refLen+4:]))+1)
		}
	}
	// canonical index: the last metadata document of the stream with the same bytes (as idx() below)
	for k, w := range wantChunk {
		for i := len(metas) - 1; w >= 0 && i > w; i-- {
			if metas[i] == metas[w] {
				wantChunk[k] = i
				break
			}
		}
	}
	idx := func(d *birch.Document) int {
		if d == nil {
			return -1
		}
		h := metaHex(d)
		for i := len(metas) - 1; i >= 0; i-- {
			if metas[i] == h {
				return i
			}
		}
		return -2
	}
	items := func(it ftdc.Iterator) []int {
		var out []int
		for it.Next() {
			out = append(out, idx(it.Metadata()))
		}
		it.Close()
		return out
	}
	var chunkM []int
	perChunkOK := true
	it := ftdc.ReadChunks(ctx, bytes.NewReader(stream))
	for it.Next() {
		c := it.Chunk()
		m := idx(c.GetMetadata())
		chunkM = append(chunkM, m)
		// the per-chunk document iterators report their chunk's metadata with every document
		for _, pit := range []ftdc.Iterator{c.Iterator(ctx), c.StructuredIterator(ctx)} {
			got := items(pit)
			if len(got) != c.Size() {
				perChunkOK = false
			}
			for _, g := range got {
				if g != m {
					perChunkOK = false
				}
			}
		}
	}
	it.Close()
	flat := items(ftdc.ReadMetrics(ctx, bytes.NewReader(stream)))
	str := items(ftdc.ReadStructuredMetrics(ctx, bytes.NewReader(stream)))
	mat := items(ftdc.ReadMatrix(ctx, bytes.NewReader(stream)))
	ser := items(ftdc.ReadSeries(ctx, bytes.NewReader(stream)))
	is := func(v []int) string {
		ss := make([]string, len(v))
		for i, x := range v {
			ss[i] = fmt.Sprint(x)
		}
		return strings.Join(ss, ",")
	}
	o.emit(line, fmt.Sprintf("chunks=[%s] flat=[%s] struct=[%s] matrix=[%s] series=[%s]", is(chunkM), is(flat), is(str), is(mat), is(ser)))
	o.nontrivial(sec[0][0])
	o.count(fmt.Sprintf("meta-docs-%d", len(metas)))
	// oracle (C11, read side)
	if !perChunkOK {
		o.violation(line, "a per-chunk document iterator does not report its chunk's metadata with every document", nil)
	}
	if is(chunkM) != is(wantChunk) {
		o.violation(line, "a chunk does not report the most recent metadata document that preceded it", map[string]string{"got": is(chunkM), "want": is(wantChunk)})
		return
	}
	var wantDocs []int
	for i, n := range chunkSizes {
		for k := 0; k < n; k++ {
			wantDocs = append(wantDocs, wantChunk[i])
		}
	}
	for name, got := range map[string][]int{"ReadMetrics": flat, "ReadStructuredMetrics": str} {
		if is(got) != is(wantDocs) {
			o.violation(line, name+": Metadata() after Next is not the metadata of the current document's chunk", map[string]string{"got": is(got), "want": is(wantDocs)})
		}
	}
	for name, got := range map[string][]int{"ReadMatrix": mat, "ReadSeries": ser} {
		if is(got) != is(wantChunk) {
			o.violation(line, name+": Metadata() after Next is not the metadata of the current item's chunk", map[string]string{"got": is(got), "want": is(wantChunk)})
		}
	}
}

func streamMeta(o *Out, rng *rand.Rand, thorough bool, _ []string) {
	runStart = time.Now()
	n := 200
	if thorough {
		n = 5000
	}
	for i := 0; i < n; i++ {
		var stream []byte
		opt := refEncOpts{typeAs: []byte{0x10, 0x12, 0x01}[rng.Intn(3)], level: zlib.DefaultCompression}
		nparts := 1 + rng.Intn(6)
		nm := 0
		for p := 0; p < nparts; p++ {
			switch rng.Intn(4) {
			case 0:
				stream = append(stream, refMetaDoc(opt, int64(p), instantiate(rng, genSchema(rng, 0, 2, false, 5), 0))...)
				nm++
			case 1:
				stream = append(stream, refUnknownDoc(rng, int64(p))...)
			case 2:
				// output of a real collector with its own metadata
				docs := genDocs(rng, genSchema(rng, 0, 3, false, 8), 1+rng.Intn(5))
				var md []byte
				if rng.Intn(2) == 0 {
					md = docBytes([]*Node{{Key: "m", Tag: 0x10, Raw: u32(uint32(nm))}})
					nm++
				}
				stream = append(stream, collect(ctors[rng.Intn(len(ctors))], 1+rng.Intn(3), md, docs)...)
			default:
				docs := genDocs(rng, genSchema(rng, 0, 3, false, 8), 1+rng.Intn(4))
				stream = append(stream, refEncodeChunk(rng, docs, opt, int64(p))...)
			}
		}
		run(o, fmt.Sprintf("meta %s | %s", hx(stream), inflateTable(stream)))
	}
}
