# per-property configuration of bin/check: correspondence streams, evidence rule text
PROPS = {
    "C12": {
        "gen": True,
        "streams": ["hdr-grid", "hdr-stat"],
        "rule": "hdr-grid: every v in -1..max+2 for a grid of small configurations (public API only), plus random "
                "configurations up to 2^40 with values at bucket/sub-bucket boundaries +-1 (verif-tagged probe); "
                "hdr-stat: random multisets, merges, windows, import/export. A case is non-trivial/distinct when it "
                "lands in a distinct (configuration, counts index) pair resp. yields a distinct counts array.",
        "technique": "Lean 4 theorems over a hand-written model + Go-to-Lean translation of hdr.go's integer functions regenerated on every run and proved equal to the model + differential correspondence check against the Go implementation",
        "level_text": "Theorems (Props/C12.lean) for every valid configuration and every value: recording v <= highest succeeds in every "
                      "reachable state, v lies in its reported range, the range width is the unit or at most v*10^-sigfigs, total = number "
                      "accepted = sum of counts, rejection is a no-op. Proved over Nat from the literal bitLen cascade and sizing loop of the "
                      "model; the model is tied to hdr.go by exhaustive small grids and boundary-biased large configurations on every run. "
                      "In addition the integer functions of hdr.go (bitLen, getBucketIndex, getSubBucketIdx, countsIndex, countsIndexFor, valueFromIndex, "
                      "sizeOfEquivalentValueRange, lowest/next/highest/medianEquivalentValue, getCountAtIndex) are TRANSLATED from the Go source into Lean "
                      "definitions on every run (harness/cmd/extract/translate.go -> Gen/Code.lean) and go_code_is_model proves the translated functions equal "
                      "to the model's for every configuration New can establish and every value below 2^63; go_index_in_range, go_value_in_reported_range, "
                      "go_range_width_bound restate the property's clauses about the translated Go functions themselves; go_bitLen_is_bit_length shows the "
                      "translated loop never runs out of its fuel on an int64; RecordValues itself is translated too (receiver threaded functionally, error = none): "
                      "go_RecordValues_is_model, go_record_succeeds (nil for every value up to the highest trackable one in every reachable state).",
        "level_note": "Proof is about the Lean model; trusted: Lean kernel, propext/Classical.choice/Quot.sound, the correspondence harness. "
                      "Preconditions: sigfigs 1..5, lowest < 2^40, highest < 2^62 (no int64 overflow; float steps of New exact). "
                      "The clause 'total = sum of Distribution() bar counts' is proved as total = sum of the counts array; the iterator walk "
                      "producing the bars is compared by the correspondence run (hdr-stat barsum) and treated in C13.",
        "assumptions": [
            "int64 arithmetic of hdr.go does not overflow for highest < 2^62, lowest < 2^40 (theorems carry this precondition)",
            "math.Log2/Ceil/Floor/Pow steps of New equal the integer functions of the model (checked on every generated configuration)",
        ],
    },
    "C01": {
        "gen": True,
        "technique": "Lean 4 theorems over a hand-written model + Go-to-Lean translation of getPayload's zero-run encoder loops (collector_better.go) regenerated on every run and proved equal to the model's encoder + differential correspondence check against the Go implementation",
        "streams": ["core"],
        "rule": "core: fixed regression corpus; every delta matrix with entries in {0,+1,-1} and m*n <= 6 (thorough: 8) over rotating "
                "constructors; random schema trees (depth <= 4, fan-out <= 4, all 20 BSON element types, arrays in documents in arrays) with "
                "per-leaf boundary values and delta patterns, every compressing constructor, N in {1,2,3,7,len,len+1}. Distinct = distinct case line.",
        "level_text": "Theorems (Props/C01.lean) for all inputs. AT THE BYTE LEVEL (streaming_file_roundtrip, batch_file_roundtrip; Lemmas/FileE2E.lean): the outer documents {_id, type, doc | data} "
                      "are serialised as the collectors serialise them and the reader model frames, parses, inflates and decodes them - for every chunk size, every number of documents, any schemas (rejected "
                      "documents included) the BYTES the streaming collector hands to its writer, resp. the bytes Resolve of the batch collector returns, are read back by ReadChunks without error into exactly the "
                      "accepted documents' values, once each and in order; zlib enters only through the assumption inflate (deflate p) = (p, clean end). streaming_file_structured: for documents of one schema, ReadStructuredMetrics of those bytes gives - chunk by chunk, in order - "
                      "exactly the documents added (all but the pending chunk's) with their non-metric leaves removed. End to end for the streaming collector with every chunk size n and every number of documents "
                      "(streaming_collector_roundtrip): Add d0 and any documents ds of its schema - what was handed to the writer is one metric chunk per run of consecutive "
                      "documents, the pending chunk is one more run, the runs concatenated are d0 :: ds, and the reader decodes every chunk to exactly its documents with the "
                      "non-metric leaves removed, in order. The same for the batch collector (batch_collector_roundtrip: Resolve returns one chunk per run), and for the two "
                      "schema-aware constructors over any sequence of schemas (dynamic_collector_any_schemas, streaming_dynamic_collector_any_schemas: the input is any list of runs "
                      "of documents, one schema inside a run, consecutive runs with different schema keys; a key change opens a new batch / flushes the pending chunk and loses "
                      "nothing; every chunk decodes to exactly its documents and the chunks concatenated are all documents in order). End to end for the base collector (base_collector_roundtrip): Add d0 and any documents ds of its schema to a fresh collector - "
                      "all are accepted, Resolve yields one chunk, and decoding its payload gives exactly d0 :: ds with the non-metric leaves removed. End to end for one chunk (chunk_roundtrip): for every document d0 and every list ds of documents of d0's schema "
                      "(any tree of sub-documents and arrays, every leaf type, any values, any count), the payload getPayload writes is decoded by the reader into a chunk whose "
                      "structured documents are exactly d0 :: ds with the non-metric leaves removed, in order. Its layers, each for all inputs: varint round trip for every uint64, "
                      "zero-run stream round trip for every delta list (runs crossing metric boundaries) and its metric-by-metric reading (rleDecMetrics_of_flat), wrapping delta round "
                      "trip, bit-exact leaf normalisation, the strict BSON parser on the serialiser's output (wire_document_roundtrip: parseDoc (serDoc d) = some d), restoration of "
                      "a document from its own values and from the values of any document of the same schema (restore_other_document). The model (collectors -> payload -> decoder "
                      "-> structured documents) is run against the implementation on every case.",
        "level_note": "chunk_roundtrip carries the hypotheses: reference document well-formed and below 2^31 bytes, datetimes within the nanosecond range (the property's own domain), counts "
                      "fit their 32-bit fields, and no timestamp leaf: the timestamp clause is false of the code (known finding F1, pinned by an existing unit test): its negation is "
                      "proved (timestamp_clause_false) and the oracle classifies exactly that deviation as the known finding. Proved for every compressing constructor: that the collector hands exactly (head, vals head, tail.map vals) of each run to "
                      "getPayload (better_adds, sg_run, bg_run, dynamic_runs, sd_runs). The schema-aware theorems exclude two different schemas with one schema key "
                      "(hypothesis AdjDiff; sim_schemaKey proves one schema has one key). zlib and the outer "
                      "{_id, type, data} document are exercised by the correspondence run, not proved. Trusted: zlib (external), Lean "
                      "kernel, harness.",
        "assumptions": ["inflate(deflate x) = x (compress/zlib is external)", "birch parses every document the strict validator accepts as the model's parser does"],
    },
    "C02": {
        "streams": ["views"],
        "rule": "views: schemas biased to nesting >= 2, sibling sub-documents at depth 4, arrays in documents in arrays, second schema in the same stream; "
                "all six reader entry points on the same bytes. Oracle: keys = independent full-path walk over the reference documents, pairwise agreement of "
                "table, flattened, structured, per-chunk, matrix and series views incl. BSON types. Distinct = distinct byte stream.",
        "level_text": "Theorem keys_are_full_paths: for every document tree the decoder's metric keys are the dot-joined paths of every enclosing field name and "
                      "array index (specification leafPaths written from the property text), in document order; keys_are_distinct: distinct leaves never share a key, for every "
                      "reference document whose field names are dot-free and distinct within each document (joinDot_inj: dot-joining is injective on dot-free segments; a "
                      "counterexample with a dot in a name is proved next to it); one series per leaf; every view has the table's "
                      "keys, order and sample count (the views are functions of the one table in the model, and that model is diffed against all six entry points).",
        "level_note": "The value clause (i-th value = integer normalisation of the leaf in the i-th sample) is C01's chunk_roundtrip plus the views being functions of the one table. "
                      "ReadSeries order was nondeterministic before fix F3; metric paths lost segments before fix F2.",
        "assumptions": ["keys without '.'"],
    },
    "C03": {
        "gen": True,
        "technique": "Lean 4 theorems over a hand-written model + Go-to-Lean translation of getPayload's zero-run encoder loops (collector_better.go) regenerated on every run and proved equal to the model's encoder + differential correspondence check against the Go implementation",
        "streams": ["core", "wire-dec"],
        "rule": "core (encode direction): the library's bytes are parsed with an independent strict BSON walker and compress/zlib; header fields, field order, "
                "length prefix, no trailing bytes are checked and the inflated payload is compared byte for byte with the payload the Lean model emits; intermediate Resolve calls (token R) and "
                "a second final Resolve must not change what is emitted. "
                "wire-dec (decode direction): streams from an independent reference encoder (split zero runs, runs crossing metric boundaries, type as "
                "int32/int64/double, unknown types, interleaved metadata, zlib levels incl. stored, extra top-level fields) decoded by library and model.",
        "level_text": "encoder_output_is_decoder_input (Props/C03.lean, Lemmas/FileE2E.lean): the outer documents the encoder writes - {_id: datetime, type: int32 0, doc} and {_id: datetime, type: int32 1, data: binary subtype 0 = le32 |payload| ++ zlib payload}, in this field order - are given as BSON trees and bytes, and ANY list of them (metadata documents and decodable chunks in any order) is read by the reader model without error into exactly its chunks: same reference documents, same samples, same order; zlib assumed only to satisfy inflate (deflate p) = (p, clean end); data_field_is_wellformed_binary: the strict parser accepts the data field whatever follows. Theorems (Props/C03.lean): decoder_complete_deltas — every spec-conformant token stream (any splitting/placement of zero runs) decodes to "
                      "the deltas it denotes; encoder_stream_roundtrip; encoder_is_canonical - the stream getPayload writes is the byte rendering of a token stream that denotes exactly "
                      "the deltas, with no zero literal and no zero run followed by another (every run maximal, also across metric boundaries); payload layout (reference document "
                      "verbatim, counts, stream); type field of any BSON number type; unknown types skipped; metadata "
                      "documents only replace the current metadata. Byte-exact canonical payload is decided by the correspondence (model payload = library payload).",
        "level_note": "That the library's bytes ARE the model's canonical payload is the byte equality checked on every case of the core stream (plus the independent nonCanonical "
                      "oracle). The outer document and zlib are checked by the independent walker, not modelled. Timestamp decoding: known finding F1.",
        "assumptions": ["inflate(deflate x) = x"],
    },
    "C04": {
        "streams": ["fuzz"],
        "rule": "fuzz (child process, watchdog 20 s): every prefix of valid streams, byte substitution/insertion/deletion at every offset (quick: <= 400 offsets per "
                "stream) of the outer documents and of the re-compressed payload, perturbed size/count fields, corrupt zlib header/body/checksum/truncation, "
                "missing/short/retyped data field, seeded multi-byte mutation; all five entry points. Distinct = distinct byte string.",
        "level_text": "Theorems (Props/C04.lean) for all byte strings and all inflate functions: refinement of the reader to a sequential fold over framed documents; "
                      "a stream cut inside a document or with a bad size word reports an error; chunks wholly before the damage are delivered (prefix theorem); "
                      "errors are sticky; every damaged-chunk class yields an error. Totality: the model is a total Lean function (termination checked).",
        "level_note": "The model has no panic outcome because the repaired readers validate input and recover; 'no crash/no hang' of the real process is observed by "
                      "the isolated fuzz run. Sample counts above 65536 per metric in a mutant are not explored (minutes-long loops; allocation is not modelled).",
        "assumptions": ["birch parses every document the strict validator accepts", "inflate is a function of the compressed bytes"],
    },
    "C11": {
        "streams": ["meta", "hist"],
        "rule": "meta: streams with zero, one or several metadata documents (type as int32/int64/double incl. -0.0) interleaved with chunks from the reference "
                "encoder and from every real collector with SetMetadata; Metadata() read after every Next of the chunk, document, matrix and series iterators. "
                "Distinct = distinct byte stream.",
        "level_text": "file_metadata_travels (Props/C11.lean, Lemmas/FileE2E.lean), write side and read side together at the byte level: in the file made of ANY list of output documents (metadata documents and decodable chunks in any order, serialised as the collectors serialise them) every chunk the reader delivers carries the metadata document that precedes it most closely - none before the first one; a replaced metadata document describes exactly the chunks between it and its replacement - together with its own reference document and samples, and no error is reported (zlib assumed only to invert). Theorems (Props/C11.lean): chunk_metadata_is_latest — for every stream of framed documents the chunk decoded from a document carries the most "
                      "recent preceding metadata document (none => nil); write side: metadata emitted as its own type-0 document ahead of the chunk, never in the "
                      "payload, replaced by a later SetMetadata, kept across Add/Reset.",
        "level_note": "Iterator clause: items carry their chunk's metadata through the worker pipe (fix F11); the schedule-independence of that pairing is part of "
                      "the pipeline model (C05/C06). Collector histories with SetMetadata at every position are explored by the hist stream of C07.",
        "assumptions": [],
    },
    "C07": {
        "streams": ["hist"],
        "rule": "hist: every history of length <= 3 (thorough: 5) over {Add a, Add a', Add unreadable, Resolve, Reset, Flush, SetMetadata, Info} x "
                "{base, batch, dynamic, streaming, streamingDynamic} x N in {1,2,3}; random histories of 20-120 operations over random schemas incl. the "
                "writer collector. After every operation of a short history (at the end of a long one): decode(writer + Resolve) = accepted since Reset, "
                "Info = pending, Resolve repeatable, rejected Add changes nothing, chunk size bounds. Distinct = distinct history line.",
        "level_text": "Theorems (Props/C07.lean) over all operation lists: base collector holds/renders exactly the samples accepted since the last Reset "
                      "(base_faithful_log), never more than capacity, Info = held samples, rejected Add is a no-op, Reset discards everything; batch collector: "
                      "accepted Add appends exactly that sample, rejected Add is a no-op, every chunk <= N and every chunk but the last = N for every sequence of Adds, and it holds exactly the accepted samples once each and in order across every "
                      "chunk roll-over (batch_faithful_log), and every chunk it resolves to is decoded by the reader model to exactly its samples (batch_output_decodes); "
                      "streaming and schema-aware streaming collectors (streaming_faithful_log, streaming_dynamic_faithful_log): after any sequence of Adds over a writer that "
                      "accepts every write, the samples in the writer followed by the pending ones are exactly the accepted samples, once each and in order - across every "
                      "automatic flush and every schema-change flush; streaming_writer_decodes_to_accepted: every chunk in the writer is DECODED by the reader model (C01's "
                      "decode_payload) to exactly the samples it holds, so what is decodable from the writer plus the pending samples is exactly what was accepted. "
                      "WHOLE HISTORIES: batch_faithful_all_histories (Add, unreadable Add, Reset, SetMetadata, Resolve, Info in any order: the batch collector holds exactly the documents "
                      "accepted since the last Reset and its chunk invariant - every chunk but the last full - holds throughout); streaming_faithful_all_histories and "
                      "streaming_dynamic_faithful_all_histories (Props/C09.lean: Add, unreadable Add, Flush, Reset, SetMetadata, Resolve, Info in any order, under every script of "
                      "write results: complete writes ++ pending = the documents accepted and not discarded by a Reset, once each and in order).",
        "level_note": "The dynamic (non-streaming) collector over whole histories is C08.dynamic_faithful_all_histories (Props/C08.lean: one batch collector per schema run, together exactly the "
                      "documents accepted since the last Reset, for every history of Add, unreadable Add, Reset, SetMetadata, Resolve, Info). Wrapper stacking is covered by the "
                      "correspondence run, not by a composed theorem. The sampling collector depends on "
                      "the wall clock and is not modelled.",
        "assumptions": ["chunk size N >= 1"],
    },
    "C08": {
        "streams": ["schema"],
        "rule": "schema: every sequence of length 2..3 (thorough: 4) over a pool of 10 schemas (added/removed/renamed/reordered/nested fields, the pair "
                "{a:{b},c} / {a,b:{c}}, type-only changes) x {dynamic, streamingDynamic, writer, batch, base, streaming} x N in {1,2,3,10}; random longer "
                "sequences; GENERATED schema pairs: a random schema tree and the same tree after one structural edit (hoist the last leaf of a sub-document behind it, sink, rename, "
                "swap, wrap, unwrap, retype, add, remove, metric -> non-metric) in alternating patterns through the schema-aware collectors. Oracle: schema-aware collectors accept everything and decode to the input; others never store a sample under another metric "
                "count/type; chunk boundaries only at change points and capacity. Distinct = distinct history line.",
        "level_text": "dynamic_faithful_all_histories: for EVERY history of Add, unreadable Add, Reset, SetMetadata, Resolve and Info on the dynamic collector there is a grouping of the documents accepted since the last Reset into runs of one schema key such that batch collector i holds exactly run i (invariant GD carried through Reset and SetMetadata). Theorems (Props/C08.lean): streaming_dynamic_chunk_boundaries and dynamic_chunk_boundaries - for ANY sequence of runs of documents (one schema inside a run, "
                      "consecutive runs with different schema keys) and every chunk size, the chunks written plus the pending one (resp. the batch collectors' Resolve output) are, run by "
                      "run, each run cut exactly at capacity: a new chunk at each change point and otherwise only at capacity, nothing lost or reordered (C01's ..._any_schemas theorems "
                      "add that every such chunk decodes to exactly its documents). schema_key_injective — equal hash input implies equal lists of full metric keys for all documents with C-string "
                      "keys (the lemma the schema-aware collectors rest on; FNV is external); unseparated_keys_collide — the witness that the unrepaired hash input "
                      "was not injective (F10); one-step laws of the dynamic collector (same schema continues, change splits + is accepted + updates the schema, F8); "
                      "non-schema-aware collectors refuse a differing metric count/types and stay unchanged; stored rows have the chunk's width; "
                      "streaming_dynamic_chunks_have_one_schema - over EVERY history of Adds (any schemas in any order) no chunk the schema-aware streaming collector writes mixes "
                      "two schemas: the written chunks are the value rows of lists of documents that each have one schema key, the pending samples belong to documents that all "
                      "have the collector's current key (ghost invariant G over all histories); dynamic_batches_have_one_schema - the same for the (non-streaming) dynamic collector: batch i "
                      "holds exactly the value rows of a list of documents that all have one hash input, and the batches concatenated are exactly the accepted documents, once each "
                      "and in order (ghost invariant GD).",
        "level_note": "FNV-64 collisions are outside the model (hash input is compared). The boundary theorems exclude two different schemas with one schema key (hypothesis AdjDiff) and are about "
                      "Add histories over a writer that accepts every write; the writer collector (NewWriterCollector = the schema-aware streaming collector behind io.Writer), write "
                      "faults, and Resolve/Reset/Flush interleaved with Adds are decided by the correspondence run (F9/F16 were found that way).",
        "assumptions": ["keys are C strings (no NUL), no '.' and not purely numeric for the correspondence pools", "FNV-64 injective on the inputs hashed"],
    },
    "C09": {
        "streams": ["crash", "fault"],
        "rule": "crash: every byte offset 0..len of what streaming collectors wrote (streams <= 4 KiB, with metadata and schema changes) as a crash point, in an "
                "isolated child: error iff the offset is inside a document, exactly the contained chunks delivered. fault: every placement of one (and two) failing "
                "writes (error, short with error, short without error) among the first 4 (thorough: 6) writes x {streaming, streamingDynamic, writer} x N in {1,2,3} "
                "x 4 operation scripts; oracle: failing op reports an error, decode(successful writes + Resolve) = accepted. Distinct = distinct case line.",
        "level_text": "Theorems (Props/C09.lean) for every framed stream and every byte offset: a prefix ending at a document boundary decodes to exactly the fold over the "
                      "documents inside it; a prefix ending inside a document reports an error and still delivers the chunks before the cut; serialised documents are "
                      "framed; a failing or short write makes the flush fail and leaves all pending samples, a successful one moves them to the log exactly once; an Add "
                      "whose implicit flush fails is rejected without touching the collector. durability_bound: over a writer that accepts every write, after any sequence of "
                      "Add calls of which k were accepted, a streaming collector with chunk size N >= 1 has handed at least N*floor((k-1)/N) samples to its writer, every "
                      "accepted sample is in the writer or among the at most N pending ones (inductive invariant DInv over all histories). faithful_under_any_write_faults: for EVERY "
                      "script of write results (ok / error without consuming / short count) and every sequence of Adds, the samples in the complete writes followed by the "
                      "pending ones are exactly the samples whose Add returned nil, once each and in order - a failing write discards nothing, a later successful flush "
                      "delivers the pending samples exactly once, an Add that returned an error added nothing; dynamic_faithful_under_any_write_faults: the same for the schema-aware "
                      "streaming collector (failing schema-change flushes included). streaming_faithful_all_histories / streaming_dynamic_faithful_all_histories: the same invariant over "
                      "whole histories - Add, unreadable Add, explicit Flush, Reset, SetMetadata, Resolve, Info in any order under every script of write results (a Reset discards what is "
                      "pending and nothing that was written); successful_flush_delivers_everything: a flush that reports success leaves nothing pending, so once the writer accepts "
                      "data again one successful flush makes every accepted sample durable.",
        "level_note": "A short write leaves half a document in the byte log: recovery is stated over the "
                      "fully successful writes.",
        "assumptions": ["documents shorter than 2^31 bytes"],
    },
    "C17": {
        "streams": ["uncompressed"],
        "rule": "uncompressed: every history of length <= 3 (thorough: 4) over {Add of 5 documents (two field counts, nested schemas), unreadable Add, Resolve, "
                "Reset, Flush, SetMetadata of two different metadata documents, Info} x {plain, streaming, streamingDynamic} x {bson, json} x batch size {1,2}; random histories of 10-70 operations, "
                "batch sizes 1-4. Oracle: writer ++ Resolve parsed as a BSON sequence / JSON lines = every accepted, not discarded sample, byte-identical (BSON) or "
                "value-identical per line (JSON), in order, once; a metadata document in the output is the one currently set; pending <= batch size. Distinct = distinct history line.",
        "level_text": "Theorems (Props/C17.lean): output = metadata (if set) ++ held samples and nothing else; accepted Add appends exactly that document, rejected Add "
                      "changes nothing; pending never exceeds the batch size for every sequence of Adds; Reset keeps encoding and metadata; a streaming flush writes "
                      "exactly the resolved documents once and conserves written ++ pending; ustreaming_faithful_log: after ANY sequence of Adds what the streaming variant has "
                      "written followed by the pending documents is exactly the accepted documents - the documents themselves, once each, in order; the schema-aware variant "
                      "resets in place (fix F16).",
        "level_note": "The JSON rendering of one document (bson.MarshalExtJSON) is external: the oracle parses every line back and compares values. In the streaming variants "
                      "the metadata document precedes the samples of every flush (each flush is one Resolve). A rejected Add of a non-empty document into a collector holding "
                      "only empty documents changes the remembered field count (corner outside this property; noted in DESIGN.md).",
        "assumptions": ["batch size >= 1"],
    },
    "C14": {
        "gen": True,
        "streams": ["events"],
        "rule": "events: random event sequences (1-12 events; ids zero/non-zero/extreme; counters and timers from boundary values incl. MinInt64/MaxInt64 and random "
                "64-bit values; nil events; the pointer of an earlier event re-used after being refilled) through the cumulative, n-sampling (n = 1..7) and pass-through "
                "collectors over a snapshotting collector that forwards to a real batch collector; marshal/unmarshal round trips. Oracle: value-semantics running totals, "
                "decoded FTDC output = persisted samples. Distinct = distinct case line.",
        "technique": "Lean 4 theorems over a hand-written model + Go-to-Lean translation of Performance.Add regenerated on every run and proved equal to the model + differential correspondence check against the Go implementation",
        "level_text": "Performance.Add is TRANSLATED from events/performance.go into a Lean definition on every run (Gen/Code.lean); go_performance_add_is_model proves it equal, modulo the int64 "
                      "wrap-around, to the model's Perf.add for all values, and go_running_totals folds it over any event list to the specification's totals. "
                      "Theorems (Props/C14.lean) for every event list: cumulative_kth (the k-th written sample is the specification's totals of events 1..k: sums of counters and "
                      "timers, last time stamp/gauges, id rule), nil refused, pass-through exact, sampling totals always accumulate and index i is written iff n | i, "
                      "perf_roundtrip (unmarshal (marshal p) = p, marshal/unmarshal modelled key by key).",
        "level_note": "Events are values in the model; that the Go collectors do not alias the caller's struct is what the re-used-pointer cases of the stream check (finding F18, "
                      "fixed). Random-sampling and interval collectors depend on math/rand and the wall clock and are outside the property. Decoding through FTDC is C01.",
        "assumptions": ["time stamps at millisecond precision"],
    },
    "C13": {
        "gen": True,
        "technique": "Lean 4 theorems over a hand-written model + Go-to-Lean translation of hdr.go's integer code (value functions, iterator.next, Max, Min) regenerated on every run and proved equal to the model + differential correspondence check against the Go implementation",
        "streams": ["hdr-stat"],
        "rule": "hdr-stat: random multisets (uniform, log-skewed, clustered at power-of-two boundaries, heavy duplicates, rejected values; n <= 60, thorough: up to 3000) on "
                "configurations up to 2^21; 17 quantiles per multiset (fixed grid incl. 0.001, 100, >100 plus random), ranks computed by the library's own float expression; "
                "every multiset split at a random point into merge operands (same configuration, a smaller/coarser one, and the same shape at another unit magnitude - lowest and highest scaled by a power of two -, both merge orders); rotation schedules of 1-5 windows x 1-12 "
                "steps; Export/Import, BSON and JSON round trips. Oracle: exact sorted list. Distinct = distinct (configuration, counts array).",
        "level_text": "REGENERATED GO CODE (Gen/Code.lean, translated from hdr.go on every run; 32-bit arithmetic exact): go_iterator_step_is_model - one call of iterator.next is one step of the model's walk, from every position; go_Max_Min_are_model - Max and Min as they stand in hdr.go (iterator constructor, the for i.next() loop with its break, the final equivalent-value call) equal the model's maxV/minV for every reachable histogram; go_value_functions_are_model, go_quantile_is_order_statistic - the value a quantile reports is hdr.go's own highestEquivalentValue of the exact order statistic. Theorems (Props/C13.lean, Lemmas/HdrRank.lean), for every valid configuration, every list of recorded int64 values and every rank: the value at rank r is the "
                      "histogram's representative (highest equivalent value) of the exact order statistic of rank r (quantile_is_order_statistic; with the sorted list spelled out: "
                      "quantile_is_rth_smallest), quantiles are monotone in the rank (quantile_monotone) and within the precision bound of the order statistic "
                      "(quantile_within_precision); Max() is the representative of the largest and Min() the lowest equivalent value of the smallest recorded value, each within "
                      "the precision bound (max_is_representative_of_maximum, min_is_lowest_equivalent_of_minimum); the numerator of Mean() is the sum of the median equivalent values of the recorded values, "
                      "each within half a range of its value (mean_numerator_is_sum_of_medians, median_within_half_range); merging two histograms of one configuration equals recording the union of their values with nothing dropped (merge_is_union), in "
                      "either order (merge_commutes, record_order_irrelevant); for ANY two configurations (merge_any_configuration) the receiver ends up as if its own values and the "
                      "argument's values - each replaced by the lowest value of its range in the argument, which is what Merge re-records - had been recorded, and the reported "
                      "dropped count is exactly the number of those the receiver rejects; a windowed histogram's merge after any sequence of records and rotations equals recording what its "
                      "slots hold (window_merge_is_union), and the slots hold exactly the last n generations (window_merge_is_last_n_windows: the rotating index idx % n against a "
                      "chronological queue that drops the oldest generation at every Rotate; Lemmas/Window.lean); Import(Export(h)) = h; counts never negative; a merge step conserves counts (recorded + dropped).",
        "level_note": "Proved through: the counts array is the multiplicity function of the accepted values under the index map (cnts_getD), the index map is monotone (idx_mono), the "
                      "iterator visits the indices in increasing order (find_iter, merge_fold), a value is accepted iff it lies below the capacity of the array (accepts_iff). "
                      "Trusted, compared by the exact oracle of hdr-stat and by model = implementation only: the float operations - Mean's final division, the "
                      "expression int64(q/100*n + 0.5) that turns q into a rank; BSON/JSON marshalling.",
        "assumptions": ["as C12", "float rank expression int64(q/100*n + 0.5) evaluated identically by harness and library"],
    },
    "C20": {
        "streams": ["genny"],
        "rule": "genny: 1-4 actors built from performance-event streams through real batch collectors (chunk sizes 1,2,3,5,1000), overlapping and disjoint spans, gaps of "
                "several seconds, many samples per second, explicit and GetGennyTime spans; thorough adds a span > 300 s. Oracle: the seven clauses of the property evaluated "
                "on ReadStructuredMetrics of the output. Distinct = distinct case line.",
        "level_text": "Theorems (Props/C20.lean) for every actor list, span and chunking: exactly one output sample per second of the span (one_sample_per_second), start stamps "
                      "one second apart from the workload start, one sub-document per actor in input order in every sample, and whatever translateAtNextWindow returns is the "
                      "value vector of one of that actor's own remaining samples (nextWindow_own); the selected sample is the first one at or after the cursor whose wall-clock "
                      "second differs from the previous one - every skipped sample lies in the previous second (findWindow_first); after any number of seconds the positions "
                      "(chunk number, index) each actor has selected are non-decreasing (picks_never_move_backwards, with loopSeconds_states tying the states to the output). The "
                      "model is compared with TranslateGenny/GetGennyTime on every case.",
        "level_note": "The 300 "
                      "bound is the streaming collector's capacity (C07) with the extracted constant. math.Ceil(float64(ts)/1000) is the integer ceiling for |ts| < 2^53. An actor "
                      "without any chunk would dereference nil in Go; the property quantifies over actors built from event streams.",
        "assumptions": ["|ts| < 2^53", "decoding of the actor streams is C01"],
    },
    "C18": {
        "streams": ["csv"],
        "rule": "csv: chunk streams from real collectors over flat schemas (keys incl. commas, quotes, newlines, leading blanks) and nested schemas, all metric types except "
                "datetime, negative and extreme values, 1-3 parts with differing metric counts (incl. metric-less chunks); WriteCSV text parsed with encoding/csv, DumpCSV files, "
                "ConvertFromCSV with bucket sizes 1-5 re-read with ReadStructuredMetrics. Oracle: header = keys, one row of integer-normalised values per sample, round trip "
                "keeps keys and integer table, rotation/error exactly at metric-count changes. Distinct = distinct byte stream.",
        "level_text": "Theorems (Props/C18.lean): atoi(itoa v) = v for every integer (concrete decimal functions); every row is the integer table's row; header = keys; WriteCSV "
                      "succeeds with header + all rows on a constant metric count and fails at a change; DumpCSV rotates exactly at a change and every new file starts with its "
                      "header; a converted row is the document of the header's keys and the row's integers (two's complement identity).",
        "level_note": "Quoting/splitting of records is encoding/csv (external; exercised by the correspondence with metacharacter keys). A header consisting of one empty field is "
                      "written as an empty line and lost (encoding/csv behaviour; not generated). Datetime columns are rendered as text and are outside the round trip, as the "
                      "property says. The zero-metric-chunk sentinel defect (F19) is fixed.",
        "assumptions": ["read(write records) = records for encoding/csv"],
    },
    "C05": {
        "streams": ["sched-err"],
        "rule": "sched-err (isolated child, hooks of package verifhook): every failure location of a three-chunk stream (cut in the middle of / 4 bytes into / 1 byte into every "
                "document, a corrupt chunk at every position) x five reader entry points x {no delay, a 15 ms delay of the goroutine that reaches one of nine named points for the "
                "k-th time}; plus seeded perturbed schedules (yield / 20 us / 200 us at every point with probability 0.3). Err() is read immediately after Next() returned false "
                "and again later; streams with two failures that every schedule reaches (a corrupt chunk directly followed by a truncated document): after all goroutines have finished Err() of the "
                "chunk iterator carries both errors. Quick runs a third of the systematic schedules (all catcher.Add ones). Distinct = (reader, point, occurrence, stream).",
        "level_text": "Theorem err_never_lost (Props/C05.lean): in the transition system of ReadChunks (two producer goroutines, consumer, unbuffered and 2-slot channels, catcher), "
                      "for every input and every schedule without cancellation, once Next has returned false on a failing input Err is non-nil; proved from a 15-clause inductive "
                      "invariant. err_lost_before_fix: with the pinned commit's order (close, then add) a 5-step schedule loses the error (decide). errors_retained: the catcher "
                      "only grows. cancel_before_registration_loses_error: why the theorem speaks of runs without cancellation. The layers above (document, matrix, series iterators): "
                      "upper_layer_err_never_lost - on every schedule of a layer's worker and its consumer, once Next has returned false the layer's Err is what the layer below "
                      "reported (so non-nil stays non-nil up the stack); upper_layer_err_lost_if_closed_first for the other order; layer_above: the same composition as a lemma.",
        "level_note": "Mutex-protected catcher operations and channel operations are atomic steps of the model; the Go scheduler and memory model are trusted. The upper-layer system "
                      "takes 'the layer below has ended and its Err() is stable' as given (that is the theorem of the layer below; for the chunk iterator a late second error can "
                      "still arrive - see DESIGN.md section 6 - which changes which error is reported, not whether one is).",
        "assumptions": ["no cancellation (cancelling is not a decoding failure)"],
    },
    "C06": {
        "gen": True,
        "streams": ["sched-close"],
        "rule": "sched-close (isolated child): five reader entry points x four stream shapes (single tiny chunk; one 250-sample chunk > the 100-slot document buffers; 60 chunks > the "
                "25-slot matrix buffer and the 2-slot chunk pipe; 4 small chunks) x cancel points k in {0,1,2,total/2,total-1,total,total+1} (thorough: every k) x {Close, context "
                "cancel, Close twice, Close then cancel}; plus perturbed schedules. Observed: goroutines with library frames after a grace period, Next under a watchdog. "
                "Distinct = (reader, action, k, stream).",
        "level_text": "Theorems (Props/C06.lean) on the ReadChunks transition system with cancel as a scheduler choice at any point: after cancellation, while a producer goroutine is "
                      "alive one of them can move (no goroutine blocked forever), every producer step strictly decreases a natural-number potential, consumer and cancel steps do not "
                      "increase it, potential 0 = both exited, Next never blocks once the producers have exited, a second cancel is not a step. The layers above (document, matrix, series "
                      "and per-chunk iterators) are one generic worker transition system (Model/Layer.lean) with the same theorems (layer_worker_never_blocked, "
                      "layer_worker_steps_decrease, layer_other_steps_keep, layer_next_after_exit); what that model assumes of the code is REGENERATED from the source on every run "
                      "(go/ast extractor -> Gen/Facts.lean) and checked by decide: every select of the reader pipeline has a <-ctx.Done() arm (every_select_has_cancel_arm), no "
                      "channel send stands outside a select (no_bare_send), every Close calls the iterator's own cancel function (every_close_cancels).",
        "level_note": "Bounded time is bounded steps; the wall-clock bound is the harness watchdog. The layer theorem takes 'the layer below closes its pipe after cancel' as an "
                      "environment action (it is the theorem of that layer); the composition of the stack is by that induction, not one product system. The regenerated facts are "
                      "syntactic (a renamed cancel field breaks them although nothing is wrong: reported with no-failing-input-found). Finding F7 was in the matrix layer.",
        "assumptions": [],
    },
    "C19": {
        "streams": ["json", "runtime"],
        "rule": "json: line streams of 1-14 lines over three schemas with schema changes, a malformed line or a line longer than the 64 KiB scanner limit at a random position "
                "(one third of the cases), a last line without newline (one third), lines of exactly 65534..65537 and 131072 bytes (terminated and not, classified by bufio.Scanner itself), sample counts 1-6, flush intervals never / 1-3 ms with a slow reader so that flush timers fire mid-stream. Oracle: nil error only if no "
                "line was malformed and then the decoded output is the numeric projection of EVERY line in order (a long line may be refused with an error or read in full). runtime: real CollectRuntime runs (sample count 10-14, collection "
                "1-3 ms, flush 5-45 ms, cancellation after 20-170 ms); the files are decoded with ReadMetrics and the id trace is validated against the model. Distinct = distinct case line.",
        "level_text": "Theorems (Props/C19.lean): json_all_or_error — a malformed or unreadable line anywhere, with flush ticks anywhere, means no result (an error); a result means every "
                      "line was accepted; a periodic flush only appends. runtime_ids — for every sequence of collect and flush ticks ending in cancellation the ids in the files are "
                      "exactly 0..n-1 in order, no file of the sequence is empty and the final partial batch is flushed (inductive invariant over the event loop).",
        "level_note": "JSON parsing and the scanner are external (a line is what they make of it). Timer order is a list of scheduler choices; real timers, the OS and the file system are "
                      "observed only through the validated traces. That each file is valid FTDC is C09/C07. Findings F17 (scanner error ignored) and F20 (a periodic flush ended the "
                      "collection with a nil error) are fixed.",
        "assumptions": ["bufio.Scanner stops with an error at a token > 64 KiB"],
    },
    "C16": {
        "streams": ["sched-rec", "rec-tick"],
        "gen": True,
        "rule": "sched-rec (isolated child, 20 s watchdog per case): interval recorder (tickers of 50 us - 2 ms) and synchronized recorder over a raw recorder, 1-8 goroutines x 1-60 "
                "increments x 1-6 begin/EndTest cycles; one third with the flusher held between its tick and the mutex across EndTest (hook interval.tick), one third with seeded "
                "perturbation at every schedule point, one third with a slow collector (every Add takes 0.2-3 ms, EndTest arrives while a flush is in progress). Observed: every call returns, no Add "
                "completes after EndTest returned, the collector is never called from two goroutines at once, persisted counters per cycle (monotone, final = G*M), goroutine profile after EndTest/Reset; concurrent-begin cases (every worker opens the iteration, "
                "hundreds of short cycles), both interval recorders. rec-tick (shared with C15): 2 ms interval recorders over a collector that fails on chosen calls; after EndTest or Reset has returned "
                "nothing reaches the collector any more. Distinct = distinct case line.",
        "level_text": "Theorems (Props/C16.lean): all_lock_balanced — the lock/unlock/return skeleton of every mutex-taking method, REGENERATED from /repo's sources on every run "
                      "(harness/cmd/extract -> Gen/Facts.lean), releases the mutex on every return path (kernel-evaluated); every_path_releases_the_mutex: by the soundness of that checker against an independent path "
                      "semantics (Lemmas/LockSound.lean: a branch runs one alternative, a loop body any number of times), no such method has a path that unlocks a mutex it does not "
                      "hold, returns with it held or falls off its end with it; exited_never_owns, owner_can_always_move (no call blocks "
                      "forever), flusher_at_most_one, no_active_flusher_without_canceler, counters_are_sums for every schedule of any number of user goroutines and flusher "
                      "generations (inductive invariant); deadlock_before_fix and unrepaired_flusher_rejected for the pinned commit (F15).",
        "level_note": "PARTIAL for 'no data races': mutex regions are atomic steps of the model and the Go memory model is trusted. The skeleton check looks at Lock/Unlock/defer/return "
                      "structure only (it does not know which fields a method touches, nor other blocking calls such as WaitGroup.Wait - seeded change agent-C16 is caught by the "
                      "schedule stream, not by the skeletons). The histogram interval recorder shares the skeleton; its stream cases use the performance variant.",
        "assumptions": ["sync.Mutex is a correct mutex"],
    },
    "C10": {
        "streams": ["conc-coll"],
        "race": True,
        "rule": "conc-coll (harness built with -race, isolated child; a detected data race kills the child and is reported): synchronized collector and buffered-over-synchronized "
                "collector, 1-16 producers x 1-60 (thorough: up to 200) samples, buffer sizes 0-8, GOMAXPROCS in {1,2,16}, concurrent Info/Resolve/SetMetadata observers on the synchronized AND on the buffered collector (with a yielding wrapper between the two); the wrapped "
                "collector logs the real linearisation order; plus a catcher hammer (2-16 goroutines x 100-2100 errors). Oracle: every acknowledged Add once, per-producer order, decoded "
                "output = logged order, buffered delivery after cancel. Distinct = distinct case line.",
        "level_text": "Theorems (Props/C10.lean) for every schedule, any number of producers and samples: what the wrapped collector received from a producer is exactly what that producer "
                      "was acknowledged, in order (sync_log_is_acknowledged, sync_finished_producer, sync_conservation, mutual exclusion); buffered: accepted = delivered ++ queued "
                      "(nothing dropped), the drain goroutine is enabled while something is queued, it stops only after cancellation and then everything accepted before the "
                      "cancellation has been delivered; the catcher's flags only grow.",
        "level_note": "PARTIAL for 'no data races': the Go memory model is outside the model; the -race build of the harness is supporting evidence, not a theorem. An Add racing with the "
                      "cancellation may be accepted after the drain goroutine stopped (the property speaks of items accepted before cancellation). The drain goroutine never exits "
                      "after draining a non-empty queue on cancel (it ranges over a channel nobody closes): a leak, not a lost sample.",
        "assumptions": ["sync.RWMutex is a correct mutex", "channel operations are atomic steps"],
    },
    "C15": {
        "model_is_the_property": True,
        "streams": ["recorder", "rec-tick"],
        "rule": "recorder: every call sequence of length <= 2 (thorough: 3) over a 23-call alphabet (four increments incl. an out-of-range histogram value, three gauge setters, zero-valued "
                "arguments of all of them, Begin/"
                "EndIteration, SetTime, SetDuration, SetTotalDuration, SetID, EndTest, Reset), each followed by EndTest and also run inside a persisted iteration after non-zero gauges and counters, x ten constructors (raw, single, grouped, interval, four "
                "histogram variants, synchronized and stdlib-shim wrappers) x intervals {0, 1 h}; random sequences of 5-45 calls with a snapshotting collector failing on chosen Add "
                "calls. Independent oracle: every persisted sample carries the last gauge/id set and the sums of the increments. Explicit durations are whole seconds, so elapsed-time parts (bounded against the wall clock by the oracle) do not disturb the comparison. Distinct = case line.",
        "level_text": "Theorems (Props/C15.lean) for every state and kind of the reference model: only EndIteration/EndTest can persist; single/interval kinds never persist at EndIteration; "
                      "raw persists at every EndIteration; grouped exactly when the interval has elapsed; increments add exactly their argument to their own counter; setters leave "
                      "counters alone; gauges are the last value set; after EndTest or Reset everything but the gauges is zero; EndTest returns the accumulated error count (plus its own "
                      "failing Add) and restarts from zero; failing collector calls and rejected histogram values are counted.",
        "level_note": "time.Now is the symbol NOW and time.Since an uninterpreted elapsed part in the model; the grouped gate is decided for intervals 0 and 1 h only. Histogram samples are "
                      "read from the PerformanceHDR struct by the snapshotting collector (marshalling a 1.4-million-entry histogram through birch is quadratic and does not finish). The "
                      "interval recorders' ticker-driven persistence is C16. Finding F14 (grouped histogram recorder ignored its interval) is fixed.",
        "assumptions": ["the whole case runs in under a second of elapsed time"],
    },
}
