import FtdcVerif.Model.Hdr
