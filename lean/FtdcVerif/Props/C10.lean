import FtdcVerif.Lemmas.ConcColl
import FtdcVerif.Lemmas.Pipeline
/-!
# C10 — thread-safe collector wrappers lose nothing under concurrent producers

Synchronized collector: for any number of producers, any samples and any schedule, what the
wrapped collector received from producer g is exactly what g has been acknowledged, in g's
order — every acknowledged Add exactly once, per-producer order kept, and when all producers are
done the log restricted to g is g's whole sequence.  Buffered collector: everything accepted is
in the wrapped collector or still queued (never dropped), the drain goroutine can always move
while something is queued, and when it stops everything accepted before the cancellation has
been delivered.  "No data races" is not a theorem (Go memory model): the race-detector build of
the harness is supporting evidence.
-/
namespace Ftdc.Props.C10
open Ftdc.ConcColl

/-- **exactly once, in each producer's order**: for every schedule the wrapped collector has
received from producer `g` exactly the samples whose `Add` returned, in order -/
theorem sync_log_is_acknowledged (orig : Nat → List Nat) (sched : List Nat) (g : Nat) :
    logOf (srun { todo := orig } sched) g = (srun { todo := orig } sched).acked g :=
  (srun_inv orig sched _ (sinit_inv orig)).log_acked g

/-- nothing is invented or lost on the way: acknowledged ++ in flight ++ still to do is the
producer's original sequence -/
theorem sync_conservation (orig : Nat → List Nat) (sched : List Nat) (g : Nat) :
    orig g = (srun { todo := orig } sched).acked g ++
      (match (srun { todo := orig } sched).pc g with | .idle => [] | .waiting x => [x] | .inCS x => [x]) ++
      (srun { todo := orig } sched).todo g :=
  (srun_inv orig sched _ (sinit_inv orig)).conserve g

/-- when a producer has finished, the log holds its whole sequence, once, in order -/
theorem sync_finished_producer (orig : Nat → List Nat) (sched : List Nat) (g : Nat)
    (hidle : (srun { todo := orig } sched).pc g = .idle) (hdone : (srun { todo := orig } sched).todo g = []) :
    logOf (srun { todo := orig } sched) g = orig g := by
  have h1 := sync_log_is_acknowledged orig sched g
  have h2 := sync_conservation orig sched g
  rw [hidle, hdone] at h2
  simp at h2
  rw [h1, h2]

/-- mutual exclusion: at most one producer is inside the wrapped collector -/
theorem sync_mutual_exclusion (orig : Nat → List Nat) (sched : List Nat) (g k : Nat) (x y : Nat)
    (hg : (srun { todo := orig } sched).pc g = .inCS x) (hk : (srun { todo := orig } sched).pc k = .inCS y) :
    g = k := by
  have inv := srun_inv orig sched _ (sinit_inv orig)
  have a := inv.cs_owner g x hg
  have b := inv.cs_owner k y hk
  rw [a] at b; injection b

/-- **buffered: nothing accepted is ever dropped** -/
theorem buffered_conservation (cap : Nat) (sched : List BAct) :
    (brun { cap := cap } sched).accepted = (brun { cap := cap } sched).log ++ (brun { cap := cap } sched).queue :=
  (brun_inv sched _ (binit_inv cap)).conserve

/-- **buffered: what was accepted before cancellation is delivered by the time the drain
goroutine stops** — without any further call -/
theorem buffered_delivers_before_exit (cap : Nat) (sched : List BAct)
    (h : (brun { cap := cap } sched).dpc = .exited) :
    (brun { cap := cap } sched).acceptedAtCancel ≤ (brun { cap := cap } sched).log.length ∧
    (brun { cap := cap } sched).log <+: (brun { cap := cap } sched).accepted := by
  have inv := brun_inv sched _ (binit_inv cap)
  exact ⟨inv.delivered h, by rw [inv.conserve]; exact List.prefix_append _ _⟩

/-- the drain goroutine is never blocked while something is queued and it has not stopped;
it only stops after cancellation -/
theorem buffered_drain_enabled (s : BSt) (hq : s.queue ≠ []) (hd : s.dpc ≠ .exited) :
    (bstep s .drain).isSome := by
  simp only [bstep]
  cases hp : s.dpc with
  | exited => exact absurd hp hd
  | select => cases hq' : s.queue with
    | nil => exact absurd hq' hq
    | cons x r => simp
  | draining => cases hq' : s.queue with
    | nil => exact absurd hq' hq
    | cons x r => simp

theorem buffered_stops_only_after_cancel (cap : Nat) (sched : List BAct)
    (h : (brun { cap := cap } sched).dpc = .exited) : (brun { cap := cap } sched).cancelled = true :=
  (brun_inv sched _ (binit_inv cap)).exited_cancelled h

/-- the shared catcher retains every error added concurrently (the two producer goroutines of
the reader pipeline are the instance proved in `Pipeline`): flags only ever go from false to true -/
theorem catcher_retains (items : List Ftdc.Pipeline.Item) (sched : List Ftdc.Pipeline.Pid)
    (p : Ftdc.Pipeline.Pid) (s' : Ftdc.Pipeline.St)
    (hs : Ftdc.Pipeline.step (Ftdc.Pipeline.run (Ftdc.Pipeline.init true items) sched) p = some s') :
    ((Ftdc.Pipeline.run (Ftdc.Pipeline.init true items) sched).dErrIn = true → s'.dErrIn = true) ∧
    ((Ftdc.Pipeline.run (Ftdc.Pipeline.init true items) sched).cErrIn = true → s'.cErrIn = true) :=
  Ftdc.Pipeline.flags_monotone (Ftdc.Pipeline.Fails items) _ s' p
    (Ftdc.Pipeline.run_inv (Ftdc.Pipeline.Fails items) sched _ (Ftdc.Pipeline.init_inv items)) hs

/-! non-vacuity: two producers interleaved -/
example : (srun { todo := fun g => if g = 0 then [1, 2] else if g = 1 then [7] else [] }
    [0, 1, 0, 0, 1, 1, 0, 0, 0]).log = [(0, 1), (1, 7), (0, 2)] := by decide

end Ftdc.Props.C10
