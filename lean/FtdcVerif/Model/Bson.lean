import FtdcVerif.Model.Basic
/-
  BSON documents as trees, a serialiser and a strict parser.

  The strict parser accepts exactly what the (repaired) readers accept:
  `validateDocument` in /repo's bson_validate.go is its Go twin, and birch parses every
  document that passes it (hypothesis `BirchAgrees`, exercised by the fuzz stream).
-/
namespace Ftdc

mutual
inductive BVal where
  | double (bits : BitVec 64)
  | doc (d : BDoc)
  | arr (d : BDoc)
  | bool (b : Bool)
  | datetime (ms : BitVec 64)
  | int32 (v : BitVec 32)
  | timestamp (t i : BitVec 32)
  | int64 (v : BitVec 64)
  /-- every non-metric type: the type byte and the raw value bytes -/
  | other (tag : Nat) (raw : Bytes)
inductive BDoc where
  | nil
  | cons (key : Bytes) (v : BVal) (rest : BDoc)
end

instance : Inhabited BVal := ⟨.other 10 []⟩
instance : Inhabited BDoc := ⟨.nil⟩

namespace BDoc
def length : BDoc → Nat
  | nil => 0
  | cons _ _ r => r.length + 1
def append : BDoc → BDoc → BDoc
  | nil, d => d
  | cons k v r, d => cons k v (r.append d)
def toList : BDoc → List (Bytes × BVal)
  | nil => []
  | cons k v r => (k, v) :: r.toList
def ofList : List (Bytes × BVal) → BDoc
  | [] => nil
  | (k, v) :: r => cons k v (ofList r)
/-- first element with the given key (birch `Lookup` on documents without duplicate keys) -/
def lookup (key : Bytes) : BDoc → Option BVal
  | nil => none
  | cons k v r => if k = key then some v else r.lookup key
end BDoc

def BVal.tag : BVal → Nat
  | .double _ => 0x01 | .doc _ => 0x03 | .arr _ => 0x04 | .bool _ => 0x08
  | .datetime _ => 0x09 | .int32 _ => 0x10 | .timestamp _ _ => 0x11 | .int64 _ => 0x12
  | .other t _ => t

/-! ### serialiser -/
mutual
def serVal : BVal → Bytes
  | .double b => le64 b.toNat
  | .doc d => serDoc d
  | .arr d => serDoc d
  | .bool b => [if b then 1 else 0]
  | .datetime ms => le64 ms.toNat
  | .int32 v => le32 v.toNat
  | .timestamp t i => le32 i.toNat ++ le32 t.toNat
  | .int64 v => le64 v.toNat
  | .other _ raw => raw
def serElems : BDoc → Bytes
  | .nil => []
  | .cons k v r => (v.tag :: (k ++ [0])) ++ serVal v ++ serElems r
def serDoc (d : BDoc) : Bytes :=
  let body := serElems d
  le32 (body.length + 5) ++ body ++ [0]
end

/-! ### strict parser -/

def takeN (n : Nat) (bs : Bytes) : Option (Bytes × Bytes) :=
  if bs.length < n then none else some (bs.take n, bs.drop n)

/-- C string: bytes up to the first NUL -/
def cstring : Bytes → Option (Bytes × Bytes)
  | [] => none
  | b :: r => if b = 0 then some ([], r) else
      match cstring r with
      | some (s, rest) => some (b :: s, rest)
      | none => none

/-- length-prefixed string value (types 0x02, 0x0D, 0x0E): int32 l ≥ 1, l bytes, last one NUL.
Returns the raw value bytes (prefix included). -/
def lpString (bs : Bytes) : Option (Bytes × Bytes) :=
  match takeN 4 bs with
  | none => none
  | some (lb, r) =>
    let l := rdLe lb
    if l < 1 ∨ l ≥ 2 ^ 31 then none else
    match takeN l r with
    | none => none
    | some (s, rest) => if s.getLast? = some 0 then some (lb ++ s, rest) else none

mutual
/-- parse one value of type `t`; fuel bounds the nesting depth -/
def parseVal : Nat → Nat → Bytes → Option (BVal × Bytes)
  | 0, _, _ => none
  | fuel+1, t, bs =>
    if t = 0x01 then (takeN 8 bs).map fun (v, r) => (.double (BitVec.ofNat 64 (rdLe v)), r)
    else if t = 0x02 ∨ t = 0x0D ∨ t = 0x0E then (lpString bs).map fun (v, r) => (.other t v, r)
    else if t = 0x03 ∨ t = 0x04 then
      match takeN 4 bs with
      | none => none
      | some (lb, _) =>
        let l := rdLe lb
        if l < 5 ∨ l ≥ 2 ^ 31 then none else
        match takeN l bs with
        | none => none
        | some (db, rest) =>
          match parseDocF fuel db with
          | none => none
          | some d => some (if t = 0x03 then .doc d else .arr d, rest)
    else if t = 0x05 then
      match takeN 5 bs with
      | none => none
      | some (hd, _) =>
        let l := rdLe (hd.take 4)
        let st := hd.getD 4 0
        if l ≥ 2 ^ 31 then none else
        if 5 < st ∧ st < 0x80 then none else
        match takeN (5 + l) bs with
        | none => none
        | some (v, rest) =>
          if st = 2 then
            -- old binary: inner length must be consistent
            if l < 4 then none else
            if rdLe ((v.drop 5).take 4) + 4 = l then some (.other t v, rest) else none
          else some (.other t v, rest)
    else if t = 0x06 ∨ t = 0x0A ∨ t = 0xFF ∨ t = 0x7F then some (.other t [], bs)
    else if t = 0x07 then (takeN 12 bs).map fun (v, r) => (.other t v, r)
    else if t = 0x08 then
      match bs with
      | 0 :: r => some (.bool false, r)
      | 1 :: r => some (.bool true, r)
      | _ => none
    else if t = 0x09 then (takeN 8 bs).map fun (v, r) => (.datetime (BitVec.ofNat 64 (rdLe v)), r)
    else if t = 0x0B then
      match cstring bs with
      | none => none
      | some (a, r) =>
        match cstring r with
        | none => none
        | some (b, rest) => some (.other t (a ++ [0] ++ b ++ [0]), rest)
    else if t = 0x0C then
      match lpString bs with
      | none => none
      | some (s, r) => (takeN 12 r).map fun (o, rest) => (.other t (s ++ o), rest)
    else if t = 0x0F then
      match takeN 4 bs with
      | none => none
      | some (lb, _) =>
        let l := rdLe lb
        if l < 14 ∨ l ≥ 2 ^ 31 then none else
        match takeN l bs with
        | none => none
        | some (v, rest) =>
          match lpString (v.drop 4) with
          | none => none
          | some (_, dr) =>
            match parseDocF fuel dr with
            | none => none
            | some _ => some (.other t v, rest)
    else if t = 0x10 then (takeN 4 bs).map fun (v, r) => (.int32 (BitVec.ofNat 32 (rdLe v)), r)
    else if t = 0x11 then (takeN 8 bs).map fun (v, r) =>
      (.timestamp (BitVec.ofNat 32 (rdLe (v.drop 4))) (BitVec.ofNat 32 (rdLe (v.take 4))), r)
    else if t = 0x12 then (takeN 8 bs).map fun (v, r) => (.int64 (BitVec.ofNat 64 (rdLe v)), r)
    else if t = 0x13 then (takeN 16 bs).map fun (v, r) => (.other t v, r)
    else none

/-- elements up to the terminating NUL, which must be the last byte -/
def parseElems : Nat → Bytes → Option BDoc
  | 0, _ => none
  | _+1, [] => none
  | fuel+1, t :: rest =>
    if t = 0 then (if rest = [] then some .nil else none) else
    match cstring rest with
    | none => none
    | some (key, r) =>
      match parseVal fuel t r with
      | none => none
      | some (v, r') =>
        match parseElems fuel r' with
        | none => none
        | some d => some (.cons key v d)

/-- a whole document: `bs` is exactly the document (size word = length) -/
def parseDocF : Nat → Bytes → Option BDoc
  | 0, _ => none
  | fuel+1, bs =>
    if bs.length < 5 then none else
    if rdLe (bs.take 4) ≠ bs.length then none else
    parseElems fuel (bs.drop 4)
end

def parseDoc (bs : Bytes) : Option BDoc := parseDocF (bs.length + 2) bs

end Ftdc
