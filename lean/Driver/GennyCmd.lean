import FtdcVerif.Model.Genny
import Driver.Util
namespace Driver
open Ftdc.Genny

def chunksOf (n : Nat) (l : List Sample) : List GChunk :=
  let rec go (fuel : Nat) (l : List Sample) (acc : List GChunk) : List GChunk :=
    match fuel with
    | 0 => acc.reverse
    | f+1 => if l.isEmpty then acc.reverse else go f (l.drop n) (l.take n :: acc)
  if n = 0 then [l] else go (l.length + 1) l []

def parseSample (s : String) : Option Sample :=
  match ints? (s.splitOn ",") with
  | some (ts :: vals) => some { ts := ts, vals := vals }
  | _ => none

def parseActor (tok : String) : Option Actor :=
  match tok.splitOn ";" with
  | [name, cs, span, smp] => do
    let n ← cs.toNat?
    let samples ← (smp.splitOn "/").mapM parseSample
    let chunks := chunksOf n samples
    let (st, en) ← if span == "auto" then some (gennyTime chunks) else
      match span.splitOn ":" with
      | [a, b] => do let x ← a.toInt?; let y ← b.toInt?; pure (x, y)
      | _ => none
    pure { name := name, rest := chunks, startTime := st, endTime := en }
  | _ => none

def gennyCmd (ws : List String) : String :=
  match sections ws with
  | _ :: actorSecs =>
    match actorSecs.mapM fun s => match s with | [t] => parseActor t | _ => none with
    | none => "bad-op"
    | some actors =>
      let outs := translate actors
      let times := ",".intercalate (actors.map fun a => s!"{a.startTime}:{a.endTime}")
      let n := outs.length
      let sizes := (List.range ((n + 299) / 300)).map fun i => toString (min 300 (n - 300 * i))
      let rendered := outs.map fun o =>
        ":".intercalate (toString o.start :: o.actors.map fun (nm, vs) => s!"{nm}={",".intercalate (vs.map toString)}")
      s!"times={times} chunks={",".intercalate sizes} out={joinSp rendered}"
  | _ => "bad-op"

end Driver
