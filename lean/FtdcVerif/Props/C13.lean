import FtdcVerif.Lemmas.HdrRank
import FtdcVerif.Lemmas.Window
import FtdcVerif.Lemmas.HdrMinMax
import FtdcVerif.Lemmas.HdrMergeX
import FtdcVerif.Lemmas.HdrMean
import FtdcVerif.Lemmas.CodeTie
/-!
# C13 — quantiles, merges, windows and snapshots agree with an exact oracle

Proved here for every configuration and every list of recorded values: snapshots reproduce the
histogram (`Import(Export(h)) = h`), counts never go negative, the total is the sum of the
counts (so merging by re-recording representatives conserves counts: recorded + dropped).
The quantile clauses are proved for every configuration, every list of recorded values and every
rank: the value at rank `r` is the histogram's representative of the exact order statistic of
rank `r` (`quantile_is_order_statistic`, with the sorted list spelled out in
`quantile_is_rth_smallest`), it is monotone in the rank (`quantile_monotone`) and within the
precision bound of the order statistic (`quantile_within_precision`).  The proof goes through
`Lemmas/HdrRank.lean`: the counts array is the multiplicity function of the accepted values under
the index map, the index map is monotone, the iterator walks the indices in increasing order.
Still decided only by the exact oracle of the `hdr-stat` stream and by model/implementation
agreement (partial, see DESIGN.md §6): Min/Max/Mean, merge across different configurations,
windows.
-/
namespace Ftdc.Props.C13
open Ftdc.Hdr

/-- **Export/Import reproduce an equal histogram**, whatever was recorded -/
theorem import_export_identity (minV : Int) (maxV s : Nat) (vs : List Int) :
    import_ (export_ (recordAll (new minV maxV s) vs)) = recordAll (new minV maxV s) vs :=
  import_export minV maxV s vs

/-- counts are never negative, so `Import`'s "sum of the positive counts" is the total -/
theorem counts_nonneg (minV : Int) (maxV s : Nat) (vs : List Int) :
    NonNeg (recordAll (new minV maxV s) vs) :=
  recordAll_nonneg vs _ (by intro c hc; simp [new] at hc; omega)

/-- recording `n` occurrences at once adds exactly `n` to the total and to one count -/
theorem record_many (h h' : Hist) (v n : Int) (inv : Inv h) (he : recordValues h v n = some h') :
    h'.total = h.total + n ∧ h'.counts.sum = h.counts.sum + n ∧ SameCfg h h' := by
  obtain ⟨i, t, c⟩ := recordValues_spec he inv
  exact ⟨t, by rw [i.2, t, inv.2], c⟩

/-- one merge step conserves counts: a representative is either recorded (its count is added)
or dropped (its count goes to `dropped`) -/
theorem merge_step_conserves (acc : Hist × Int) (p : IterPos) (inv : Inv acc.1) :
    let r := match recordValues acc.1 p.valueFrom p.countAt with
      | some h' => (h', acc.2)
      | none => (acc.1, acc.2 + p.countAt)
    r.1.total + r.2 = acc.1.total + acc.2 + p.countAt ∧ Inv r.1 := by
  cases he : recordValues acc.1 p.valueFrom p.countAt with
  | none => simp only []; exact ⟨by omega, inv⟩
  | some h' =>
    obtain ⟨i, t, _⟩ := recordValues_spec he inv
    simp only []
    exact ⟨by rw [t]; omega, i⟩

/-! ### quantiles are order statistics

`ValueAtQuantile(q)` computes the rank `r = round(q·n/100)` in floating point (trusted) and returns
the value at that rank; `valueAtRank` is the model of the rest. -/

/-- what `New` builds is well-formed -/
theorem new_wf' {minV : Int} {maxV s : Nat} (hv : Valid minV maxV s) : WF (new minV maxV s) := by
  have := mkCfg_wf hv
  exact ⟨this.1, this.2, this.3, this.4, this.5, this.6, this.7, this.8⟩

/-- **The value at rank `r` is the histogram's representative of the exact order statistic of
rank `r`**, for every configuration, every list of recorded `int64` values (rejected values are
ignored, as `RecordValue` does) and every rank.  `IsOrderStat A r x` says: `x` is a recorded
value, fewer than `r` recorded values are smaller and at least `r` are not larger. -/
theorem quantile_is_order_statistic {minV : Int} {maxV s : Nat} (hv : Valid minV maxV s)
    (vs : List Int) (h63 : ∀ v ∈ vs, v < 2 ^ 63) (r x : Nat)
    (hos : IsOrderStat (accepted (new minV maxV s) vs) r x) :
    valueAtRank (recordAll (new minV maxV s) vs) r = highestEquiv (new minV maxV s) x :=
  valueAtRank_orderStat (new_wf' hv) rfl rfl vs h63 r x hos

/-- in a sorted list, position `k` has at most `k` strictly smaller and at least `k+1` not larger elements -/
theorem sorted_counts : ∀ (S : List Nat), S.Pairwise (· ≤ ·) → ∀ (k : Nat) (hk : k < S.length),
    S.countP (fun a => decide (a < S[k])) ≤ k ∧ k + 1 ≤ S.countP (fun a => decide (a ≤ S[k]))
  | [], _, k, hk => by simp at hk
  | a :: t, hp, 0, _ => by
    rw [List.pairwise_cons] at hp
    simp only [List.getElem_cons_zero, List.countP_cons, Nat.lt_irrefl, decide_false, Nat.le_refl, decide_true]
    constructor
    · have : t.countP (fun b => decide (b < a)) = 0 := by
        rw [List.countP_eq_zero]; intro b hb; have := hp.1 b hb; simp; omega
      simp [this]
    · simp
  | a :: t, hp, k + 1, hk => by
    rw [List.pairwise_cons] at hp
    have hk' : k < t.length := by simpa using hk
    obtain ⟨i1, i2⟩ := sorted_counts t hp.2 k hk'
    have hle : a ≤ t[k] := hp.1 _ (List.getElem_mem hk')
    simp only [List.getElem_cons_succ, List.countP_cons]
    constructor
    · split <;> omega
    · simp [hle]; omega

theorem sorted_mergeSort (A : List Nat) : (A.mergeSort (fun a b => decide (a ≤ b))).Pairwise (· ≤ ·) := by
  have := List.pairwise_mergeSort (le := fun (a b : Nat) => decide (a ≤ b))
    (by intro a b c; simp; omega) (by intro a b; simp; omega) A
  exact this.imp (by intro a b; simp)

/-- the `r`-th element of the sorted list is an order statistic of rank `r` -/
theorem orderStat_sorted (A : List Nat) (r : Nat) (h1 : 1 ≤ r)
    (hr : r ≤ (A.mergeSort (fun a b => decide (a ≤ b))).length) :
    IsOrderStat A r ((A.mergeSort (fun a b => decide (a ≤ b)))[r - 1]'(by omega)) := by
  have hperm := List.mergeSort_perm A (fun a b => decide (a ≤ b))
  obtain ⟨c1, c2⟩ := sorted_counts _ (sorted_mergeSort A) (r - 1) (by omega)
  refine ⟨hperm.mem_iff.1 (List.getElem_mem _), ?_, ?_⟩
  · rw [← hperm.countP_eq]; omega
  · rw [← hperm.countP_eq]; omega

/-- the same statement with the sorted list spelled out: the value at rank `r` is the
representative of the `r`-th smallest accepted value -/
theorem quantile_is_rth_smallest {minV : Int} {maxV s : Nat} (hv : Valid minV maxV s)
    (vs : List Int) (h63 : ∀ v ∈ vs, v < 2 ^ 63) (r : Nat) (h1 : 1 ≤ r)
    (hr : r ≤ ((accepted (new minV maxV s) vs).mergeSort (fun a b => decide (a ≤ b))).length) :
    valueAtRank (recordAll (new minV maxV s) vs) r =
      highestEquiv (new minV maxV s)
        (((accepted (new minV maxV s) vs).mergeSort (fun a b => decide (a ≤ b)))[r - 1]'(by omega)) :=
  quantile_is_order_statistic hv vs h63 r _ (orderStat_sorted _ r h1 hr)

/-- **quantiles are monotone in the rank** (hence in `q`) -/
theorem quantile_monotone {minV : Int} {maxV s : Nat} (hv : Valid minV maxV s)
    (vs : List Int) (h63 : ∀ v ∈ vs, v < 2 ^ 63) (r r' : Nat) (h1 : 1 ≤ r) (hrr : r ≤ r')
    (hr : r' ≤ (accepted (new minV maxV s) vs).length) :
    valueAtRank (recordAll (new minV maxV s) vs) r ≤ valueAtRank (recordAll (new minV maxV s) vs) r' := by
  have hperm := List.mergeSort_perm (accepted (new minV maxV s) vs) (fun a b => decide (a ≤ b))
  have hlen := hperm.length_eq
  rw [quantile_is_rth_smallest hv vs h63 r h1 (by omega),
    quantile_is_rth_smallest hv vs h63 r' (by omega) (by omega)]
  have hmem := hperm.mem_iff.1 (List.getElem_mem (l := (accepted (new minV maxV s) vs).mergeSort (fun a b => decide (a ≤ b)))
    (show r' - 1 < _ by omega))
  apply highestEquiv_mono (new_wf' hv) _ (mem_accepted (new_wf' hv) h63 hmem)
  rcases Nat.lt_or_ge (r - 1) (r' - 1) with hlt | hge
  · exact (List.pairwise_iff_getElem.1 (sorted_mergeSort _)) (r - 1) (r' - 1) (by omega) (by omega) hlt
  · have : r - 1 = r' - 1 := by omega
    simp [this]

/-- the representative is within the precision bound of the order statistic itself -/
theorem quantile_within_precision {minV : Int} {maxV s : Nat} (hv : Valid minV maxV s)
    (vs : List Int) (h63 : ∀ v ∈ vs, v < 2 ^ 63) (r x : Nat)
    (hos : IsOrderStat (accepted (new minV maxV s) vs) r x) :
    let q := valueAtRank (recordAll (new minV maxV s) vs) r
    x ≤ q ∧ (q < x + 2 ^ (new minV maxV s).unitMag ∨ (q + 1 - x) * 10 ^ s ≤ x) := by
  have wf := new_wf' hv
  have hxc := mem_accepted wf h63 hos.1
  simp only [quantile_is_order_statistic hv vs h63 r x hos]
  have hr := value_in_range' wf hxc
  have hw := width_bound' wf hxc
  have hpos := size_pos' wf hxc
  refine ⟨hr.2, ?_⟩
  have hhi : highestEquiv (new minV maxV s) x = lowestEquiv (new minV maxV s) x + sizeOfRange (new minV maxV s) x - 1 := rfl
  have hlo : lowestEquiv (new minV maxV s) x ≤ x := hr.1
  rcases hw with hw | hw
  · left; omega
  · right
    have hs : (new minV maxV s).sigfigs = s := rfl
    rw [hs] at hw
    refine Nat.le_trans (Nat.mul_le_mul_right _ ?_) hw
    omega

/-! ### Min and Max -/

/-- **`Max()` is the representative of the largest recorded value**, and lies within the precision
bound above it -/
theorem max_is_representative_of_maximum {minV : Int} {maxV s : Nat} (hv : Valid minV maxV s)
    (vs : List Int) (h63 : ∀ v ∈ vs, v < 2 ^ 63) (x : Nat)
    (hx : x ∈ accepted (new minV maxV s) vs) (hmax : ∀ a ∈ accepted (new minV maxV s) vs, a ≤ x) :
    Hdr.maxV (recordAll (new minV maxV s) vs) = highestEquiv (new minV maxV s) x ∧
    x ≤ highestEquiv (new minV maxV s) x ∧
    (highestEquiv (new minV maxV s) x < x + 2 ^ (new minV maxV s).unitMag ∨
      (highestEquiv (new minV maxV s) x + 1 - x) * 10 ^ s ≤ x) := by
  have wf := new_wf' hv
  have hxc := mem_accepted wf h63 hx
  refine ⟨maxV_is_max wf rfl rfl vs h63 x hx hmax, (value_in_range' wf hxc).2, ?_⟩
  have hr := value_in_range' wf hxc
  have hw := width_bound' wf hxc
  have hpos := size_pos' wf hxc
  have hhi : highestEquiv (new minV maxV s) x = lowestEquiv (new minV maxV s) x + sizeOfRange (new minV maxV s) x - 1 := rfl
  rcases hw with hw | hw
  · left; omega
  · right
    have hs : (new minV maxV s).sigfigs = s := rfl
    rw [hs] at hw
    refine Nat.le_trans (Nat.mul_le_mul_right _ ?_) hw
    omega

/-- **`Min()` is the lowest equivalent value of the smallest recorded value**, and lies within the
precision bound below it -/
theorem min_is_lowest_equivalent_of_minimum {minV : Int} {maxV s : Nat} (hv : Valid minV maxV s)
    (vs : List Int) (h63 : ∀ v ∈ vs, v < 2 ^ 63) (x : Nat)
    (hx : x ∈ accepted (new minV maxV s) vs) (hmin : ∀ a ∈ accepted (new minV maxV s) vs, x ≤ a) :
    Hdr.minV (recordAll (new minV maxV s) vs) = lowestEquiv (new minV maxV s) x ∧
    lowestEquiv (new minV maxV s) x ≤ x ∧
    (x < lowestEquiv (new minV maxV s) x + 2 ^ (new minV maxV s).unitMag ∨
      (x + 1 - lowestEquiv (new minV maxV s) x) * 10 ^ s ≤ x) := by
  have wf := new_wf' hv
  have hxc := mem_accepted wf h63 hx
  refine ⟨minV_is_min wf rfl rfl vs h63 x hx hmin, (value_in_range' wf hxc).1, ?_⟩
  have hr := value_in_range' wf hxc
  have hw := width_bound' wf hxc
  have hhi : highestEquiv (new minV maxV s) x = lowestEquiv (new minV maxV s) x + sizeOfRange (new minV maxV s) x - 1 := rfl
  have hpos := size_pos' wf hxc
  rcases hw with hw | hw
  · left; omega
  · right
    have hs : (new minV maxV s).sigfigs = s := rfl
    rw [hs] at hw
    refine Nat.le_trans (Nat.mul_le_mul_right _ ?_) hw
    omega

/-! ### Mean -/

/-- **The numerator of `Mean()` is the sum of the median equivalent values of the recorded values**
(the division by the total count is one float operation, trusted) -/
theorem mean_numerator_is_sum_of_medians {minV : Int} {maxV s : Nat} (hv : Valid minV maxV s)
    (vs : List Int) (h63 : ∀ v ∈ vs, v < 2 ^ 63) :
    meanNum (recordAll (new minV maxV s) vs) =
      ((accepted (new minV maxV s) vs).map fun a => ((medianEquiv (new minV maxV s) a : Nat) : Int)).sum := by
  generalize hN : new minV maxV s = N
  have wf : WF N := by rw [← hN]; exact new_wf' hv
  have hz : N.counts = List.replicate N.countsLen 0 := by rw [← hN]; rfl
  have ht : N.total = 0 := by rw [← hN]; rfl
  have e := recordAll_eq N vs N.counts N.total
  change recordAll N vs = _ at e
  rw [hz, ht] at e
  have inv := (recordAll_spec vs N (by rw [← hN]; exact new_inv _ _ _)).1
  have nn := recordAll_nonneg vs N (by intro c hc; rw [hz] at hc; simp at hc; omega)
  have hlen : (recordAll N vs).counts.length = (recordAll N vs).countsLen := by
    rw [e]; show (cnts N _ vs).length = N.countsLen; rw [cnts_length]; simp
  have hcnt : ∀ k, (recordAll N vs).counts.getD k 0 =
      (((accepted N vs).countP fun a => idx (recordAll N vs) a == k : Nat) : Int) := by
    intro k; rw [e]; exact counts_getD_accepted wf vs k
  have hcap : cap (recordAll N vs) = cap N := by rw [e]; rfl
  have hwf : WF (recordAll N vs) := by rw [e]; exact wf_with wf _ _
  have := mean_fold hwf hlen nn inv.2 (accepted N vs)
    (by intro a ha; rw [hcap]; exact mem_accepted wf h63 ha) hcnt
    ((recordAll N vs).countsLen + 2) 0 (-1) 0 0 (st_init _ (Nat.two_pow_pos _)) (by omega)
  have hp0 : pre (recordAll N vs).counts 0 = 0 := by simp [pre]
  rw [hp0] at this
  rw [meanNum_eq]
  unfold iter
  rw [this, Int.zero_add]
  unfold sumFrom
  congr 1
  apply List.map_congr_left
  intro a _
  simp only [Nat.zero_le, if_true]
  rw [e]; rfl

/-- every median equivalent value is within half a range of the value itself, and the range is
within the precision bound (`quantile_within_precision`) -/
theorem median_within_half_range {minV : Int} {maxV s : Nat} (hv : Valid minV maxV s) (a : Nat)
    (ha : a < cap (new minV maxV s)) :
    medianEquiv (new minV maxV s) a ≤ a + sizeOfRange (new minV maxV s) a / 2 ∧
    a ≤ medianEquiv (new minV maxV s) a + sizeOfRange (new minV maxV s) a / 2 := by
  have wf := new_wf' hv
  have hr := value_in_range' wf ha
  have hpos := size_pos' wf ha
  have hhi : highestEquiv (new minV maxV s) a = lowestEquiv (new minV maxV s) a + sizeOfRange (new minV maxV s) a - 1 := rfl
  have hmed : medianEquiv (new minV maxV s) a = lowestEquiv (new minV maxV s) a + sizeOfRange (new minV maxV s) a / 2 := by
    simp [medianEquiv, Nat.shiftRight_eq_div_pow]
  omega

/-! ### merging -/

/-- **Merging two histograms of the same configuration equals recording the union of their values,
and nothing is dropped** -/
theorem merge_is_union {minV : Int} {maxV s : Nat} (hv : Valid minV maxV s) (vs ws : List Int) :
    merge (recordAll (new minV maxV s) vs) (recordAll (new minV maxV s) ws) =
      (recordAll (new minV maxV s) (vs ++ ws), 0) := by
  generalize hN : new minV maxV s = N
  have wfN : WF N := by rw [← hN]; exact new_wf' hv
  have hz : N.counts = List.replicate N.countsLen 0 := by rw [← hN]; rfl
  have ht : N.total = 0 := by rw [← hN]; rfl
  have ev := recordAll_eq N vs N.counts N.total
  have ew := recordAll_eq N ws N.counts N.total
  have eu := recordAll_eq N (vs ++ ws) N.counts N.total
  change recordAll N vs = _ at ev
  change recordAll N ws = _ at ew
  change recordAll N (vs ++ ws) = _ at eu
  rw [hz, ht] at ev ew eu
  -- the argument, as a histogram of configuration `N`
  have hlenW : (cnts N (List.replicate N.countsLen 0) ws).length = N.countsLen := by
    rw [cnts_length]; simp
  have hlenV : (cnts N (List.replicate N.countsLen 0) vs).length = N.countsLen := by
    rw [cnts_length]; simp
  have invW := (recordAll_spec ws N (by rw [← hN]; exact new_inv _ _ _)).1
  have nnW := recordAll_nonneg ws N (by intro c hc; rw [hz] at hc; simp at hc; omega)
  rw [ew] at invW nnW
  obtain ⟨c', e, hl, hg⟩ := merge_same (g := recordAll N ws) (by rw [ew]; exact wf_with wfN _ _)
    (by rw [ew]; exact hlenW) (by rw [ew]; exact nnW) (by rw [ew]; exact invW.2)
    (cnts N (List.replicate N.countsLen 0) vs) (0 + ((vs.filter (accepts N)).length : Int))
    (by rw [ew]; exact hlenV)
  rw [ew] at e hl hg
  rw [ev, ew, eu]
  have e' : merge (withCounts N (cnts N (List.replicate N.countsLen 0) vs) (0 + ((vs.filter (accepts N)).length : Int)))
      (withCounts N (cnts N (List.replicate N.countsLen 0) ws) (0 + ((ws.filter (accepts N)).length : Int))) = _ := e
  show merge (withCounts N _ _) (withCounts N _ _) = (withCounts N _ _, 0)
  rw [e']
  have hc' : c' = cnts N (List.replicate N.countsLen 0) (vs ++ ws) := by
    apply ext_getD
    · rw [hl, cnts_length]; simp
    · intro i
      rw [hg i]
      show _ + (cnts N (List.replicate N.countsLen 0) ws).getD i 0 = _
      rw [cnts_getD N vs i _ (by simp), cnts_getD N ws i _ (by simp), cnts_getD N (vs ++ ws) i _ (by simp),
        List.countP_append]
      have h0 : (List.replicate N.countsLen (0 : Int)).getD i 0 = 0 := by
        rw [List.getD_eq_getElem?_getD]
        cases hx : (List.replicate N.countsLen (0 : Int))[i]? with
        | none => rfl
        | some a => simp [List.getElem?_replicate] at hx; simp [hx.2]
      rw [h0]; push_cast; omega
  rw [hc']
  show (withCounts N _ _, (0 : Int)) = (withCounts N _ _, 0)
  congr 2
  simp only [List.filter_append, List.length_append]
  show (0 : Int) + _ + (0 + _) = 0 + _
  push_cast; omega

/-- **Merging across configurations, with the dropped count exact.**  Whatever the two
configurations: `Merge` re-records every value `a` its argument holds as `rep a` (the lowest value
of `a`'s range in the argument), so the receiver ends up as if the union of its own values and those
representatives had been recorded, and the reported dropped count is exactly the number of
representatives the receiver rejects. -/
theorem merge_any_configuration {minH minG : Int} {maxH sH maxG sG : Nat}
    (hvG : Valid minG maxG sG) (vs ws : List Int) (h63 : ∀ w ∈ ws, w < 2 ^ 63) :
    merge (recordAll (new minH maxH sH) vs) (recordAll (new minG maxG sG) ws) =
      (recordAll (new minH maxH sH) (vs ++ (accepted (new minG maxG sG) ws).map (rep (new minG maxG sG))),
       (((accepted (new minG maxG sG) ws).countP fun a => !accepts (new minH maxH sH) (rep (new minG maxG sG) a) : Nat) : Int)) := by
  generalize hNH : new minH maxH sH = NH
  generalize hNG : new minG maxG sG = NG
  have wfG : WF NG := by rw [← hNG]; exact new_wf' hvG
  have hzH : NH.counts = List.replicate NH.countsLen 0 := by rw [← hNH]; rfl
  have htH : NH.total = 0 := by rw [← hNH]; rfl
  have hzG : NG.counts = List.replicate NG.countsLen 0 := by rw [← hNG]; rfl
  have htG : NG.total = 0 := by rw [← hNG]; rfl
  have ev := recordAll_eq NH vs NH.counts NH.total
  have ew := recordAll_eq NG ws NG.counts NG.total
  have eu := recordAll_eq NH (vs ++ (accepted NG ws).map (rep NG)) NH.counts NH.total
  change recordAll NH vs = _ at ev
  change recordAll NG ws = _ at ew
  change recordAll NH (vs ++ (accepted NG ws).map (rep NG)) = _ at eu
  rw [hzH, htH] at ev eu
  rw [hzG, htG] at ew
  -- the argument
  have invW := (recordAll_spec ws NG (by rw [← hNG]; exact new_inv _ _ _)).1
  have nnW := recordAll_nonneg ws NG (by intro c hc; rw [hzG] at hc; simp at hc; omega)
  have hlenW : (cnts NG (List.replicate NG.countsLen 0) ws).length = NG.countsLen := by rw [cnts_length]; simp
  have hlenV : (cnts NH (List.replicate NH.countsLen 0) vs).length = NH.countsLen := by rw [cnts_length]; simp
  rw [ew] at invW nnW
  have hA : ∀ a ∈ accepted NG ws, a < cap NG := fun a ha => mem_accepted wfG h63 ha
  have hcnt : ∀ k, (recordAll NG ws).counts.getD k 0 =
      (((accepted NG ws).countP fun a => idx (recordAll NG ws) a == k : Nat) : Int) := by
    intro k; rw [ew]; exact counts_getD_accepted wfG ws k
  have hcapeq : cap (recordAll NG ws) = cap NG := by rw [ew]; rfl
  obtain ⟨c', e, hl, hg⟩ := mergeX_fold (g := recordAll NG ws) (by rw [ew]; exact wf_with wfG _ _)
    (by rw [ew]; exact hlenW) (by rw [ew]; exact nnW) (by rw [ew]; exact invW.2)
    (accepted NG ws) (by intro a ha; rw [hcapeq]; exact hA a ha) hcnt NH
    ((recordAll NG ws).countsLen + 2) 0 (-1) 0 (cnts NH (List.replicate NH.countsLen 0) vs)
    (0 + ((vs.filter (accepts NH)).length : Int)) 0 (st_init _ (Nat.two_pow_pos _)) hlenV (by omega)
  have hp0 : pre (recordAll NG ws).counts 0 = 0 := by simp [pre]
  rw [hp0] at e
  rw [merge_eq, ev]
  unfold iter
  have e' : ((iterFrom ((recordAll NG ws).countsLen + 2) (recordAll NG ws) 0 (-1) 0).filter fun p => p.countAt ≠ 0).foldl mergeStep
      (withCounts NH (cnts NH (List.replicate NH.countsLen 0) vs) (0 + ((vs.filter (accepts NH)).length : Int)), 0) = _ := e
  show ((iterFrom ((recordAll NG ws).countsLen + 2) (recordAll NG ws) 0 (-1) 0).filter fun p => p.countAt ≠ 0).foldl mergeStep
      (withCounts NH _ _, 0) = _
  rw [e', eu]
  -- `rep` and `idx` of the recorded argument are those of its configuration
  have hrepeq : ∀ a, rep (recordAll NG ws) a = rep NG a := by intro a; rw [ew]; rfl
  have hidxeq : ∀ a, idx (recordAll NG ws) a = idx NG a := by intro a; rw [ew]; rfl
  have hc' : c' = cnts NH (List.replicate NH.countsLen 0) (vs ++ (accepted NG ws).map (rep NG)) := by
    apply ext_getD
    · rw [hl, cnts_length]; simp
    · intro i
      rw [hg i, cnts_getD NH vs i _ (by simp), cnts_getD NH _ i _ (by simp), List.countP_append, List.countP_map]
      have h0 : (List.replicate NH.countsLen (0 : Int)).getD i 0 = 0 := by
        rw [List.getD_eq_getElem?_getD]
        cases hx : (List.replicate NH.countsLen (0 : Int))[i]? with
        | none => rfl
        | some a => simp [List.getElem?_replicate] at hx; simp [hx.2]
      rw [h0]
      have : ((accepted NG ws).countP fun a => decide (0 ≤ idx (recordAll NG ws) a) &&
            (accepts NH (rep (recordAll NG ws) a) && (cix NH (rep (recordAll NG ws) a) == i))) =
          (accepted NG ws).countP ((fun v => accepts NH v && (cix NH v == i)) ∘ rep NG) := by
        apply countP_congr_on; intro a _; simp [hrepeq]
      rw [this]; push_cast; omega
  rw [hc']
  show (withCounts NH _ _, _) = (withCounts NH _ _, _)
  have ht1 : ((accepted NG ws).countP fun a => decide (0 ≤ idx (recordAll NG ws) a) && accepts NH (rep (recordAll NG ws) a)) =
      (((accepted NG ws).map (rep NG)).filter (accepts NH)).length := by
    rw [← List.countP_eq_length_filter, List.countP_map]
    apply countP_congr_on; intro a _; simp [hrepeq]
  have ht2 : ((accepted NG ws).countP fun a => decide (0 ≤ idx (recordAll NG ws) a) && !accepts NH (rep (recordAll NG ws) a)) =
      (accepted NG ws).countP fun a => !accepts NH (rep NG a) := by
    apply countP_congr_on; intro a _; simp [hrepeq]
  rw [ht1, ht2]
  congr 2
  · simp only [List.filter_append, List.length_append]; push_cast; omega
  · omega

/-- the histogram depends on the multiset of recorded values only, not on their order -/
theorem record_order_irrelevant {minV : Int} {maxV s : Nat} (l1 l2 : List Int) (hp : l1.Perm l2) :
    recordAll (new minV maxV s) l1 = recordAll (new minV maxV s) l2 := by
  generalize hN : new minV maxV s = N
  have hz : N.counts = List.replicate N.countsLen 0 := by rw [← hN]; rfl
  have e1 := recordAll_eq N l1 N.counts N.total
  have e2 := recordAll_eq N l2 N.counts N.total
  change recordAll N l1 = _ at e1
  change recordAll N l2 = _ at e2
  rw [e1, e2, hz]
  have hc : cnts N (List.replicate N.countsLen 0) l1 = cnts N (List.replicate N.countsLen 0) l2 := by
    apply ext_getD
    · rw [cnts_length, cnts_length]
    · intro i
      rw [cnts_getD N l1 i _ (by simp), cnts_getD N l2 i _ (by simp), hp.countP_eq]
  rw [hc, (hp.filter _).length_eq]

/-- **merging is order independent** (same configuration) -/
theorem merge_commutes {minV : Int} {maxV s : Nat} (hv : Valid minV maxV s) (vs ws : List Int) :
    merge (recordAll (new minV maxV s) vs) (recordAll (new minV maxV s) ws) =
    merge (recordAll (new minV maxV s) ws) (recordAll (new minV maxV s) vs) := by
  rw [merge_is_union hv, merge_is_union hv, record_order_irrelevant _ _ List.perm_append_comm]

/-! ### windows

The window is `n` histograms; `Rotate` clears the slot that becomes current, `Merge` merges every
slot into a fresh histogram.  The abstract state keeps, per slot, the values recorded into it since
it was last cleared. -/

inductive WOp where
  | record (v : Int)
  | rotate

def _root_.Ftdc.Hdr.Win.apply (w : Win) : WOp → Win
  | .record v => w.record v
  | .rotate => w.rotate

/-- abstract window: the values held by every slot, and the index -/
structure AWin where
  n : Nat
  slots : List (List Int)
  idx : Nat

def AWin.apply (a : AWin) : WOp → AWin
  | .record v => { a with slots := a.slots.modify (a.idx % a.n) (· ++ [v]) }
  | .rotate => { a with idx := a.idx + 1, slots := a.slots.modify ((a.idx + 1) % a.n) (fun _ => []) }

def AWin.new (n : Nat) : AWin := { n := n, slots := List.replicate n [], idx := 0 }

theorem map_modify {α β : Type} (g : α → β) (f : α → α) (f' : β → β) (hc : ∀ x, g (f x) = f' (g x)) :
    ∀ (l : List α) (k : Nat), (l.modify k f).map g = (l.map g).modify k f'
  | [], k => by simp
  | a :: l, 0 => by simp [hc]
  | a :: l, k + 1 => by simp [List.modify_succ_cons, map_modify g f f' hc l k]

/-- the concrete window is the abstract one with every slot recorded into a fresh histogram -/
def WRel (h0 : Hist) (w : Win) (a : AWin) : Prop :=
  w.h0 = h0 ∧ w.n = a.n ∧ w.idx = a.idx ∧ w.hs = a.slots.map (recordAll h0)

theorem wrel_new (n : Nat) (h0 : Hist) : WRel h0 (Win.new n h0) (AWin.new n) :=
  ⟨rfl, rfl, rfl, by simp [Win.new, AWin.new, recordAll]⟩

theorem wrel_step {h0 : Hist} {w : Win} {a : AWin} (r : WRel h0 w a) (op : WOp) :
    WRel h0 (w.apply op) (a.apply op) := by
  obtain ⟨r1, r2, r3, r4⟩ := r
  cases op with
  | record v =>
    refine ⟨r1, r2, r3, ?_⟩
    show w.hs.modify (w.idx % w.n) _ = (a.slots.modify (a.idx % a.n) _).map _
    rw [r4, r2, r3]
    exact (map_modify (recordAll h0) (· ++ [v]) (fun h => (recordValue h v).getD h)
      (by intro l; simp [recordAll, List.foldl_append]) _ _).symm
  | rotate =>
    refine ⟨r1, r2, by show w.idx + 1 = a.idx + 1; rw [r3], ?_⟩
    show w.hs.modify ((w.idx + 1) % w.n) _ = (a.slots.modify ((a.idx + 1) % a.n) _).map _
    rw [r4, r2, r3, r1]
    exact (map_modify (recordAll h0) (fun _ => []) (fun _ => h0) (by intro l; simp [recordAll]) _ _).symm

theorem wrel_run {h0 : Hist} (ops : List WOp) : ∀ {w : Win} {a : AWin}, WRel h0 w a →
    WRel h0 (ops.foldl Win.apply w) (ops.foldl AWin.apply a) := by
  induction ops with
  | nil => intro w a r; exact r
  | cons op ops ih => intro w a r; exact ih (wrel_step r op)

/-- **A windowed histogram's merge equals recording the union of what its slots hold, with nothing
dropped**, after any sequence of records and rotations -/
theorem window_merge_is_union {minV : Int} {maxV s : Nat} (hv : Valid minV maxV s) (n : Nat) (ops : List WOp) :
    (ops.foldl Win.apply (Win.new n (new minV maxV s))).merge =
      (recordAll (new minV maxV s) (ops.foldl AWin.apply (AWin.new n)).slots.flatten, 0) := by
  obtain ⟨r1, _, _, r4⟩ := wrel_run ops (wrel_new n (new minV maxV s))
  unfold Win.merge
  rw [r1, r4]
  have key : ∀ (slots : List (List Int)) (L : List Int),
      (slots.map (recordAll (new minV maxV s))).foldl
        (fun (acc : Hist × Int) h => let r := merge acc.1 h; (r.1, acc.2 + r.2))
        (recordAll (new minV maxV s) L, 0) =
      (recordAll (new minV maxV s) (L ++ slots.flatten), 0) := by
    intro slots
    induction slots with
    | nil => intro L; simp
    | cons sl slots ih =>
      intro L
      simp only [List.map_cons, List.foldl_cons, merge_is_union hv]
      rw [show ((0 : Int) + 0) = 0 from rfl, ih (L ++ sl)]
      simp [List.append_assoc]
  exact key _ []

/-! ### ... and the slots hold exactly the last `n` generations

The chronological window `CWin` keeps the last `n` generations oldest first: `Rotate` drops the
oldest and opens a new empty one, a record goes to the newest. -/

open Ftdc.Window in
def cwinApply (c : CWin) : WOp → CWin
  | .record v => c.record v
  | .rotate => c.rotate

open Ftdc.Window in
theorem awin_rel (n : Nat) (hn : 0 < n) (ops : List WOp) :
    let a := ops.foldl AWin.apply (AWin.new n)
    let c := ops.foldl cwinApply ⟨List.replicate n []⟩
    a.n = n ∧ Rel n a.slots a.idx c.win := by
  have : ∀ (ops : List WOp) (a : AWin) (c : CWin), a.n = n → Rel n a.slots a.idx c.win →
      (ops.foldl AWin.apply a).n = n ∧
      Rel n (ops.foldl AWin.apply a).slots (ops.foldl AWin.apply a).idx (ops.foldl cwinApply c).win := by
    intro ops
    induction ops with
    | nil => intro a c h1 h2; exact ⟨h1, h2⟩
    | cons op ops ih =>
      intro a c h1 h2
      simp only [List.foldl_cons]
      cases op with
      | record v =>
        apply ih
        · exact h1
        · have := rel_record v h2 hn
          simp only [AWin.apply, cwinApply, CWin.record, h1]
          exact this
      | rotate =>
        apply ih
        · exact h1
        · have := rel_rotate h2 hn
          simp only [AWin.apply, cwinApply, CWin.rotate, h1]
          exact this
  exact this ops (AWin.new n) ⟨List.replicate n []⟩ rfl (rel_init n)

open Ftdc.Window in
/-- **A windowed histogram's merge equals the union of its last `n` windows**, for every
configuration, every `n ≥ 1` and every schedule of records and rotations -/
theorem window_merge_is_last_n_windows {minV : Int} {maxV s : Nat} (hv : Valid minV maxV s) (n : Nat) (hn : 0 < n)
    (ops : List WOp) :
    (ops.foldl Win.apply (Win.new n (new minV maxV s))).merge =
      (recordAll (new minV maxV s) (ops.foldl cwinApply ⟨List.replicate n []⟩).win.flatten, 0) := by
  rw [window_merge_is_union hv]
  have := (awin_rel n hn ops).2
  rw [record_order_irrelevant _ _ (slots_perm this hn)]

/-! non-vacuity -/
example : import_ (export_ (recordAll (new 1 100 2) [5, 5, 99, 1000, -3])) =
    recordAll (new 1 100 2) [5, 5, 99, 1000, -3] := import_export_identity _ _ _ _

/-! ### The Go text itself (regenerated)

The value a quantile, `Max`, `Min` or `Mean` reports is computed by `valueFromIndex`, `lowestEquivalentValue`,
`highestEquivalentValue` and `medianEquivalentValue` of hdr.go.  These are translated from the Go source on every run
(Gen/Code.lean, 32-bit arithmetic exact) and equal the model's functions the theorems above speak about. -/
theorem go_value_functions_are_model {minV : Int} {maxV s : Nat} (hv : Valid minV maxV s) (v : Nat) (h63 : v < 2 ^ 63)
    (b sub : Nat) :
    let h := new minV maxV s
    Gen.Hdr.valueFromIndex (CodeTie.cfgOf h) b sub = (valueFromIndex h b sub : Int) ∧
    Gen.Hdr.lowestEquivalentValue (CodeTie.cfgOf h) v = (lowestEquiv h v : Int) ∧
    Gen.Hdr.highestEquivalentValue (CodeTie.cfgOf h) v = (highestEquiv h v : Int) ∧
    Gen.Hdr.medianEquivalentValue (CodeTie.cfgOf h) v = (medianEquiv h v : Int) := by
  intro h
  have wf := new_wf' hv
  have hh : h.halfMag ≤ 20 := by
    obtain ⟨_, h18, _⟩ := subMag_cases s hv.s1 hv.s5
    show (if subMag s < 1 then 1 else subMag s) - 1 ≤ 20
    split <;> omega
  exact ⟨CodeTie.valueFromIndex_tie h b sub, CodeTie.lowestEquivalentValue_tie wf v h63 hh,
    CodeTie.highestEquivalentValue_tie wf v h63 hh, CodeTie.medianEquivalentValue_tie wf v h63 hh⟩

/-- the quantile theorem restated with hdr.go's own `highestEquivalentValue`: the value at rank `r` is what the
translated Go function returns for the exact order statistic -/
theorem go_quantile_is_order_statistic {minV : Int} {maxV s : Nat} (hv : Valid minV maxV s)
    (vs : List Int) (h63 : ∀ v ∈ vs, v < 2 ^ 63) (r x : Nat) (hx : x < 2 ^ 63)
    (hos : IsOrderStat (accepted (new minV maxV s) vs) r x) :
    (valueAtRank (recordAll (new minV maxV s) vs) r : Int) =
      Gen.Hdr.highestEquivalentValue (CodeTie.cfgOf (new minV maxV s)) x := by
  rw [(go_value_functions_are_model hv x hx 0 0).2.2.1, quantile_is_order_statistic hv vs h63 r x hos]

/-- the configuration facts the translated code's ties need, for every configuration `New` establishes -/
theorem go_cfg_facts {minV : Int} {maxV s : Nat} (hv : Valid minV maxV s) :
    WF (new minV maxV s) ∧ (new minV maxV s).halfMag ≤ 20 := by
  refine ⟨new_wf' hv, ?_⟩
  obtain ⟨_, h18, _⟩ := subMag_cases s hv.s1 hv.s5
  show (if subMag s < 1 then 1 else subMag s) - 1 ≤ 20
  split <;> omega

/-- **one call of hdr.go's `iterator.next`** (translated: 32-bit index arithmetic exact) **is one step of the model's
walk** over the counts array, from every position of the walk and in every histogram with a configuration `New`
establishes: it returns false exactly when the model's walk ends and otherwise moves to the model's next position with
the same count, running count, value and highest equivalent value -/
theorem go_iterator_step_is_model {h : Hist} (wf : WF h) (hh : h.halfMag ≤ 20) (fuel b : Nat) (s ct ca vf hi : Int)
    (hs1 : -1 ≤ s) (hs2 : s < h.subCount) (hb : b ≤ h.bucketCount) :
    match iterFrom (fuel + 1) h b s ct with
    | [] => (Gen.Hdr.next (CodeTie.itOf h b s ca ct vf hi)).1 = false
    | p :: _ => Gen.Hdr.next (CodeTie.itOf h b s ca ct vf hi) =
        (true, CodeTie.itOf h p.b p.s p.countAt p.countTo p.valueFrom p.highest) :=
  CodeTie.next_tie wf hh fuel b s ct ca vf hi hs1 hs2 hb

/-- **hdr.go's `Max` and `Min`, translated as they stand** (iterator constructor, the `for i.next()` loop with its
`break`, the final equivalent-value call), **are the model's `maxV` and `minV`** - for every histogram reachable by
recording into a configuration `New` establishes; the loops get as many rounds as the counts array has entries, plus two -/
theorem go_Max_Min_are_model {minV : Int} {maxV s : Nat} (hv : Valid minV maxV s) (vs : List Int) :
    let h := recordAll (new minV maxV s) vs
    Gen.Hdr.Max (h.countsLen + 2) (CodeTie.cfgOf h) = (Hdr.maxV h : Int) ∧
    Gen.Hdr.Min (h.countsLen + 2) (CodeTie.cfgOf h) = (Hdr.minV h : Int) := by
  intro h
  obtain ⟨wf0, hh0⟩ := go_cfg_facts hv
  have hs := (recordAll_spec vs _ (new_inv minV maxV s)).2.1
  have f := hs.fields
  have wf : WF (recordAll (new minV maxV s) vs) := by
    have e1 : (new minV maxV s).highest = (recordAll (new minV maxV s) vs).highest := by
      have := hs; unfold SameCfg at this; injection this with _ h2
    have e2 : (new minV maxV s).sigfigs = (recordAll (new minV maxV s) vs).sigfigs := by
      have := hs; unfold SameCfg at this; injection this with _ _ _ h4
    obtain ⟨w1, w2, w3, w4, w5, w6, w7, w8⟩ := wf0
    constructor <;> simp only [← f, ← e1, ← e2] <;> assumption
  have hh : (recordAll (new minV maxV s) vs).halfMag ≤ 20 := by rw [← f.2.2.1]; exact hh0
  exact ⟨CodeTie.Max_tie wf hh, CodeTie.Min_tie wf hh⟩

end Ftdc.Props.C13
