import FtdcVerif.Lemmas.Codec
import FtdcVerif.Lemmas.Reader
import FtdcVerif.Model.Collector
/-!
# C03 — wire-format conformance both ways

`Tok`/`expand`/`encToks` are the format description of the delta stream (written from the FTDC
format, not from the encoder): a stream is any sequence of non-zero literals and zero-run pairs
`(0, k)` standing for k+1 zeros; runs may be split and may cross metric boundaries.
`decoder_complete_deltas` shows that the decoder recovers the deltas of *every* such stream;
`encoder_stream_roundtrip` that the encoder's own stream is one of them.  The outer layers
(type field of any BSON number type, unknown types skipped, payload layout) follow.
-/
namespace Ftdc.Props.C03
open Ftdc

/-- a token of a spec-conformant delta stream -/
inductive Tok where
  | lit (d : I64)        -- a non-zero delta
  | run (k : Nat)        -- the pair (0, k): k+1 zero deltas

def Tok.ok : Tok → Prop
  | .lit d => d ≠ 0#64
  | .run k => k < 2 ^ 64

def expandTok : Tok → List I64
  | .lit d => [d]
  | .run k => List.replicate (k + 1) 0#64

def expand (ts : List Tok) : List I64 := (ts.map expandTok).flatten

def encTok : Tok → Bytes
  | .lit d => putUvarint d.toNat
  | .run k => putUvarint 0 ++ putUvarint k

def encToks (ts : List Tok) : Bytes := (ts.map encTok).flatten

/-- **decoder completeness, delta layer**: every conformant token stream — whatever the
placement and splitting of zero runs — decodes to the deltas it denotes. -/
theorem decoder_complete_deltas : ∀ (ts : List Tok) (rest : Bytes), (∀ t ∈ ts, t.ok) →
    rleDecAux (expand ts).length 0 (encToks ts ++ rest) = some (expand ts, 0, rest) := by
  intro ts
  induction ts with
  | nil => intro rest _; simp [expand, encToks, rleDecAux]
  | cons t ts ih =>
    intro rest hok
    have ht := hok t (by simp)
    have htail := ih rest (fun x hx => hok x (by simp [hx]))
    have hexp : expand (t :: ts) = expandTok t ++ expand ts := by simp [expand]
    have henc : encToks (t :: ts) ++ rest = encTok t ++ (encToks ts ++ rest) := by simp [encToks]
    rw [hexp, henc, List.length_append, rleDecAux_append]
    cases t with
    | lit d =>
      have hd : d ≠ 0#64 := ht
      have hdn : d.toNat ≠ 0 := by
        intro h; apply hd; apply BitVec.eq_of_toNat_eq; simpa using h
      have hone : rleDecAux 1 0 (putUvarint d.toNat ++ (encToks ts ++ rest)) =
          some ([d], 0, encToks ts ++ rest) := by
        simp only [rleDecAux, ne_eq, not_true_eq_false, ite_false]
        rw [readUvarint_putUvarint d.toNat d.isLt]
        simp [hdn]
      simp only [expandTok, encTok, List.length_singleton, hone, Option.bind_some, htail]
      simp
    | run k =>
      have hk : k < 2 ^ 64 := ht
      have hrun : rleDecAux (k + 1) 0 (putUvarint 0 ++ putUvarint k ++ (encToks ts ++ rest)) =
          some (List.replicate (k + 1) 0#64, 0, encToks ts ++ rest) := by
        simp only [rleDecAux, ne_eq, not_true_eq_false, ite_false, List.append_assoc]
        rw [readUvarint_putUvarint 0 (by omega)]
        simp only [ite_true]
        rw [readUvarint_putUvarint k hk]
        simp only [rleDecAux_zeros k k _ (Nat.le_refl _)]
        simp [List.replicate_succ]
      simp only [expandTok, encTok, List.length_replicate, hrun, Option.bind_some, htail]
      simp

/-- split zero runs are the same stream: `(0,a)(0,b)` and `(0,a+b+1)` denote the same deltas -/
theorem split_run_same_deltas (a b : Nat) :
    expand [.run a, .run b] = expand [.run (a + b + 1)] := by
  simp only [expand, expandTok, List.map_cons, List.map_nil, List.flatten_cons, List.flatten_nil,
    List.append_nil]
  rw [List.replicate_append_replicate]
  congr 1; omega

/-- **encoder, delta layer**: the stream `getPayload` writes decodes to the collected deltas -/
theorem encoder_stream_roundtrip (ds : List I64) (rest : Bytes) (h : ds.length < 2 ^ 64) :
    rleDecAux ds.length 0 (rleEnc ds ++ rest) = some (ds, 0, rest) := by
  have := rle_roundtrip ds 0 rest (by simpa using h)
  simpa [rleEnc] using this

/-- payload layout: reference document verbatim, metric count, delta count, delta stream -/
theorem payload_layout (ref : BDoc) (first : Row) (rows : List Row) :
    ∃ stream, payloadOf ref first rows =
      serDoc ref ++ le32 first.length ++ le32 rows.length ++ stream := ⟨_, rfl⟩

/-- the encoder's output documents: optional metadata (type 0) then the chunk (type 1), both
stamped with the chunk's first time stamp -/
theorem output_documents (c : Better) (ref : BDoc) (hr : c.ref = some ref) :
    c.resolve = some (match c.metadata with
      | some md => [.metaDoc c.startedAt md, .chunk c.startedAt ref c.first c.rows]
      | none => [.chunk c.startedAt ref c.first c.rows]) := by
  unfold Better.resolve; simp only [hr]; cases c.metadata <;> rfl

/-- a numeric `type` field of any BSON number type is honoured -/
theorem type_field_any_number :
    isNum 1 (some (.int32 1#32)) = true ∧ isNum 1 (some (.int64 1#64)) = true ∧
    isNum 1 (some (.double 0x3FF0000000000000#64)) = true ∧
    isNum 0 (some (.int32 0#32)) = true ∧ isNum 0 (some (.int64 0#64)) = true ∧
    isNum 0 (some (.double 0#64)) = true ∧ isNum 0 (some (.double 0x8000000000000000#64)) = true := by
  decide

/-- documents of unknown type (or without a type) are skipped, leaving the state untouched -/
theorem unknown_type_skipped (inflate : Inflate) (doc : BDoc) (md : Option BDoc)
    (h0 : isNum 0 (lookupLast keyType doc) = false) (h1 : isNum 1 (lookupLast keyType doc) = false) :
    processDoc inflate doc md = .ok (md, none) := by
  simp [processDoc, h0, h1]

/-- interleaved metadata documents only replace the current metadata -/
theorem metadata_document_only_sets_metadata (inflate : Inflate) (doc : BDoc) (md : Option BDoc)
    (h0 : isNum 0 (lookupLast keyType doc) = true) :
    processDoc inflate doc md = .ok (some doc, none) := by
  simp [processDoc, h0]

/-! non-vacuity -/
example : (Tok.lit 5#64).ok ∧ (Tok.run 3).ok := by
  constructor
  · show (5#64 : I64) ≠ 0#64; decide
  · show 3 < 2 ^ 64; decide

end Ftdc.Props.C03
