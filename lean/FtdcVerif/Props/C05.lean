import FtdcVerif.Lemmas.Pipeline
/-!
# C05 — a decoding error is never lost, whatever the goroutine schedule

`Pipeline` is the transition system of `ReadChunks`: the two producer goroutines and the
consumer, with the order of "record the error" and "close the channel" as program text.  The
theorem quantifies over every input (any length, any failure location) and every schedule (any
list of scheduler choices; a blocked choice is a no-op, so every interleaving of enabled steps
is some schedule).  The document, matrix and series iterators repeat the same close-after-add
shape one layer up (their worker reads the chunk iterator's `Err()` after its `Next()` returned
false, records it, then closes its own channel): `layer_above` states that composition.
-/
namespace Ftdc.Props.C05
open Ftdc.Pipeline

/-- **Err is non-nil once Next has returned false, for every failing input and every schedule**
(repaired ordering: the error is recorded before the channel is closed) -/
theorem err_never_lost (items : List Item) (sched : List Pid)
    (hfail : Fails items = true)
    (hnocancel : (run (init true items) sched).cancelled = false)
    (hfalse : (run (init true items) sched).sawFalse = true) :
    (run (init true items) sched).errSeen = true :=
  (run_inv (Fails items) sched _ (init_inv items)).seen hfalse hfail hnocancel

/-- **finding F6**: with the pinned commit's ordering (close in a defer, add afterwards) there is
a schedule on which the consumer sees `Next() == false` and `Err() == nil` for a failing input -/
theorem err_lost_before_fix :
    ∃ (items : List Item) (sched : List Pid),
      Fails items = true ∧ (run (init false items) sched).cancelled = false ∧
      (run (init false items) sched).sawFalse = true ∧ (run (init false items) sched).errSeen = false :=
  ⟨[.cut], [.d, .d, .c, .c, .u], by decide⟩

/-- the same for a decoding error in the second goroutine -/
theorem err_lost_before_fix_decode :
    ∃ (sched : List Pid),
      (run (init false [.bad]) sched).sawFalse = true ∧ (run (init false [.bad]) sched).errSeen = false :=
  ⟨[.d, .d, .c, .c, .u], by decide⟩

/-- why `err_never_lost` speaks of runs without cancellation, and what goes wrong if a goroutine
cancels the shared context BEFORE it registers its error (seeded change agent3-C05): the other
goroutine leaves through its `ctx.Done()` arm, closes the pipe, and the consumer sees `false` while
the error is not registered yet -/
theorem cancel_before_registration_loses_error :
    ∃ (sched : List Pid),
      (run (init true [.good, .good, .good, .cut]) sched).dFailed = true ∧
      (run (init true [.good, .good, .good, .cut]) sched).sawFalse = true ∧
      (run (init true [.good, .good, .good, .cut]) sched).errSeen = false :=
  ⟨[.d, .d, .c, .c, .d, .d, .c, .c, .d, .d, .c, .d, .cancel, .c, .c, .c, .u, .u, .u], by decide⟩

/-- **a layer above**: a worker that, after the lower iterator's `Next()` returned false, records
the lower `Err()` and only then closes its own channel hands the error on: if the lower layer
guarantees "false ⇒ error visible", so does the upper one.  (`lowerErr` is what `chunks.Err()`
returned, `recorded` what the worker added, `closedAfter` that the close follows the add.) -/
theorem layer_above (lowerFalse lowerErr recorded upperClosed upperSeen : Bool)
    (hlower : lowerFalse = true → lowerErr = true)           -- guarantee of the layer below
    (hworker : upperClosed = true → lowerFalse = true ∧ recorded = lowerErr)   -- close only after add
    (hconsumer : upperSeen = recorded) (hc : upperClosed = true) : upperSeen = true := by
  obtain ⟨h1, h2⟩ := hworker hc
  rw [hconsumer, h2]; exact hlower h1

/-- errors recorded by different goroutines are both retained, and stay (the catcher only grows):
in every reachable state, an error that is in the catcher is still in it after any step -/
theorem errors_retained (items : List Item) (sched : List Pid) (p : Pid) (s' : St)
    (hs : step (run (init true items) sched) p = some s') :
    ((run (init true items) sched).dErrIn = true → s'.dErrIn = true) ∧
    ((run (init true items) sched).cErrIn = true → s'.cErrIn = true) :=
  flags_monotone (Fails items) _ s' p (run_inv (Fails items) sched _ (init_inv items)) hs

/-! non-vacuity: a failing input, a full schedule, the consumer reaches false and sees the error -/
example : (run (init true [.good, .bad]) [.d, .d, .c, .c, .u, .d, .d, .c, .c, .c, .u]).sawFalse = true ∧
          (run (init true [.good, .bad]) [.d, .d, .c, .c, .u, .d, .d, .c, .c, .c, .u]).errSeen = true := by decide

end Ftdc.Props.C05
