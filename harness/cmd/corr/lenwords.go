package main

import (
	"encoding/binary"
	"math/rand"
	"strconv"
)

// lenWord: one 32-bit length field inside a well-formed BSON document, with the sizes of the element
// that follows its owner in the same document (0 = none) and of everything up to the end of that document.
type lenWord struct {
	off  int // offset of the word in the document
	next int // size of the next sibling element of the element owning the word
	tail int // bytes between the end of the owning element and the terminator of its document
}

// lenWords lists every length field of a well-formed document (document sizes, string / binary /
// code-with-scope lengths, at every depth).
func lenWords(d []byte) []lenWord {
	var out []lenWord
	walkLenWords(d, 0, 0, 0, &out)
	return out
}

func walkLenWords(d []byte, base, next, tail int, out *[]lenWord) {
	*out = append(*out, lenWord{base, next, tail})
	type el struct {
		start, val, end int
		tag             byte
	}
	var els []el
	p := 4
	for p < len(d)-1 {
		t := d[p]
		q := p + 1
		for d[q] != 0 {
			q++
		}
		q++
		_, rest, err := parseValStrict(t, d[q:len(d)-1])
		if err != nil {
			return
		}
		end := len(d) - 1 - len(rest)
		els = append(els, el{p, q, end, t})
		p = end
	}
	for i, e := range els {
		nx := 0
		if i+1 < len(els) {
			nx = els[i+1].end - els[i+1].start
		}
		tl := len(d) - 1 - e.end
		switch e.tag {
		case 0x02, 0x0D, 0x0E, 0x05, 0x0C:
			*out = append(*out, lenWord{base + e.val, nx, tl})
		case 0x03, 0x04:
			walkLenWords(d[e.val:e.end], base+e.val, nx, tl, out)
		case 0x0F:
			*out = append(*out, lenWord{base + e.val, nx, tl})
			*out = append(*out, lenWord{base + e.val + 4, nx, tl})
			sl := int(binary.LittleEndian.Uint32(d[e.val+4:]))
			walkLenWords(d[e.val+8+sl:e.end], base+e.val+8+sl, nx, tl, out)
		}
	}
}

// lenMutants: the document with one length field changed so that the element claims more or fewer
// bytes than its parts account for: +-1, +-2, + the next sibling, + everything to the end of the
// enclosing document.  Every other length stays as it was.
func lenMutants(d []byte) [][]byte {
	var out [][]byte
	for _, w := range lenWords(d) {
		cur := int64(binary.LittleEndian.Uint32(d[w.off:]))
		seen := map[int64]bool{cur: true}
		for _, dl := range []int64{1, -1, 2, -2, 4, int64(w.next), int64(w.tail), -int64(w.next)} {
			v := cur + dl
			if v < 0 || seen[v] {
				continue
			}
			seen[v] = true
			m := append([]byte{}, d...)
			binary.LittleEndian.PutUint32(m[w.off:], uint32(v))
			out = append(out, m)
		}
	}
	return out
}

// allTypesSchema: every non-metric value type with a length field next to metric leaves, at the top
// level, in a sub-document and in an array; the code-with-scope value has a non-empty scope.
func allTypesSchema() []*Schema {
	i32 := func(k string, v uint32) *Schema {
		return &Schema{Key: k, Tag: 0x10, Gen: func(_ *rand.Rand, i int) []byte { return u32(v + uint32(i)) }}
	}
	fixed := func(k string, t byte, b []byte) *Schema { return &Schema{Key: k, Tag: t, Fixed: b} }
	code := append(u32(3), []byte("f1\x00")...)
	scope := docBytes([]*Node{{Key: "v", Tag: 0x10, Raw: u32(1)}, {Key: "s", Tag: 0x02, Raw: append(u32(2), 'q', 0)}})
	cws := append(append(u32(uint32(4+len(code)+len(scope))), code...), scope...)
	group := func() []*Schema {
		return []*Schema{
			i32("a", 1),
			fixed("cws", 0x0F, cws),
			i32("b", 7),
			fixed("str", 0x02, append(u32(4), []byte("abc\x00")...)),
			fixed("bin", 0x05, append(append(u32(3), 0x00), 1, 2, 3)),
			i32("c", 9),
			fixed("ptr", 0x0C, append(append(u32(2), []byte("n\x00")...), make([]byte, 12)...)),
			fixed("js", 0x0D, append(u32(2), []byte("x\x00")...)),
			fixed("sym", 0x0E, append(u32(2), []byte("s\x00")...)),
			i32("d", 11),
		}
	}
	arr := group()
	for i, s := range arr {
		s.Key = strconv.Itoa(i)
	}
	return append(group(), &Schema{Key: "sub", Tag: 0x03, Kids: group()}, &Schema{Key: "arr", Tag: 0x04, Kids: arr}, i32("z", 3))
}
