import FtdcVerif.Model.Uncompressed
/-!
# C17 — uncompressed collectors emit exactly the samples given, in one stable encoding

In the model an uncompressed collector's output is a list of *documents*; the flavour (BSON
bytes, or one Extended-JSON line) is a rendering applied to each document of that list and is
fixed at construction — there is no state that could change it (the unrepaired
streaming-dynamic `Reset` rebuilt the wrapped collector as a compressing one: finding F16; the
model's `reset` keeps `inner`).  The theorems show that the list is exact.
-/
namespace Ftdc.Props.C17
open Ftdc

/-- output = metadata (if set) followed by every held sample, in order, and nothing else -/
theorem output_exact (c : Uncompressed) (h : c.samples ≠ []) :
    c.resolve = some (c.metadata.toList ++ c.samples) := by
  unfold Uncompressed.resolve
  rw [if_neg h]

theorem no_samples_no_output (c : Uncompressed) (h : c.samples = []) : c.resolve = none := by
  simp [Uncompressed.resolve, h]

/-- state invariant: an empty collector has forgotten its field count; the batch size is respected -/
def Inv (c : Uncompressed) : Prop :=
  (c.metricCount = 0 → c.samples = []) ∧ c.samples.length ≤ c.batchSize ∧
  (∀ d ∈ c.samples, d.length = c.metricCount)

/-- the three outcomes of `Add` -/
theorem add_cases (c : Uncompressed) (d : BDoc) :
    (d.length ≠ (if c.metricCount = 0 then d.length else c.metricCount) ∧
      c.add d = ({ c with metricCount := if c.metricCount = 0 then d.length else c.metricCount }, .schema)) ∨
    (d.length = (if c.metricCount = 0 then d.length else c.metricCount) ∧ c.samples.length ≥ c.batchSize ∧
      c.add d = ({ c with metricCount := if c.metricCount = 0 then d.length else c.metricCount }, .overfull)) ∨
    (d.length = (if c.metricCount = 0 then d.length else c.metricCount) ∧ c.samples.length < c.batchSize ∧
      c.add d = ({ c with metricCount := (if c.metricCount = 0 then d.length else c.metricCount),
                          samples := c.samples ++ [d] }, .ok)) := by
  unfold Uncompressed.add
  simp only []
  by_cases h1 : d.length ≠ (if c.metricCount = 0 then d.length else c.metricCount)
  · left; exact ⟨h1, by rw [if_pos h1]⟩
  · have h1' := Decidable.not_not.mp h1
    by_cases h2 : c.samples.length ≥ c.batchSize
    · right; left; exact ⟨h1', h2, by rw [if_neg h1, if_pos h2]⟩
    · right; right; exact ⟨h1', by omega, by rw [if_neg h1, if_neg h2]⟩

/-- an accepted `Add` appends exactly that document -/
theorem add_ok_appends (c : Uncompressed) (d : BDoc) (h : (c.add d).2 = .ok) :
    (c.add d).1.samples = c.samples ++ [d] := by
  rcases add_cases c d with ⟨_, he⟩ | ⟨_, _, he⟩ | ⟨_, _, he⟩
  · rw [he] at h; cases h
  · rw [he] at h; cases h
  · rw [he]

/-- a rejected `Add` (field count, batch size) changes nothing -/
theorem add_rejected_noop (c : Uncompressed) (d : BDoc) (hi : Inv c) (hb : 1 ≤ c.batchSize)
    (h : (c.add d).2 ≠ .ok) : (c.add d).1 = c := by
  have hmc : c.metricCount ≠ 0 → (if c.metricCount = 0 then d.length else c.metricCount) = c.metricCount := by
    intro h0; rw [if_neg h0]
  rcases add_cases c d with ⟨h1, he⟩ | ⟨_, h2, he⟩ | ⟨_, _, he⟩
  · by_cases h0 : c.metricCount = 0
    · rw [if_pos h0] at h1; exact absurd rfl h1
    · rw [he]; simp only [hmc h0]
  · by_cases h0 : c.metricCount = 0
    · have := hi.1 h0; rw [this] at h2; simp at h2; omega
    · rw [he]; simp only [hmc h0]
  · rw [he] at h; exact absurd rfl h

/-- the pending samples never exceed the batch size, whatever is added -/
theorem add_bound (c : Uncompressed) (d : BDoc) (h : c.samples.length ≤ c.batchSize) :
    (c.add d).1.samples.length ≤ (c.add d).1.batchSize ∧ (c.add d).1.batchSize = c.batchSize := by
  rcases add_cases c d with ⟨_, he⟩ | ⟨_, _, he⟩ | ⟨_, h2, he⟩ <;> rw [he] <;> simp <;> omega

theorem add_inv (c : Uncompressed) (d : BDoc) (hd : 0 < d.length) (hi : Inv c) : Inv (c.add d).1 := by
  by_cases h0 : c.metricCount = 0
  · have hs := hi.1 h0
    rcases add_cases c d with ⟨h1, he⟩ | ⟨_, h2, he⟩ | ⟨h1, h2, he⟩
    · rw [if_pos h0] at h1; exact absurd rfl h1
    · rw [he]; simp only [if_pos h0]
      refine ⟨fun hz => ?_, by rw [hs]; simp, by rw [hs]; simp⟩
      have : d.length = 0 := hz
      omega
    · rw [he]; simp only [if_pos h0, hs]
      refine ⟨fun hz => ?_, ?_, by simp⟩
      · have : d.length = 0 := hz
        omega
      · have : 0 < c.batchSize := by simpa [hs] using h2
        simp only [List.nil_append, List.length_singleton]; omega
  · have hm : (if c.metricCount = 0 then d.length else c.metricCount) = c.metricCount := by rw [if_neg h0]
    rcases add_cases c d with ⟨_, he⟩ | ⟨_, _, he⟩ | ⟨h1, h2, he⟩
    · rw [he]; simp only [hm]; exact hi
    · rw [he]; simp only [hm]; exact hi
    · rw [he]; simp only [hm]
      rw [hm] at h1
      refine ⟨fun hz => absurd hz h0, by simp; omega, ?_⟩
      intro x hx
      simp only [List.mem_append, List.mem_singleton] at hx
      rcases hx with hx | rfl
      · exact hi.2.2 x hx
      · exact h1

/-- **batch size enforced, every history of Adds**: never more than `batchSize` samples pending -/
theorem batch_enforced (n : Nat) (ds : List BDoc) :
    ((ds.foldl (fun c d => (c.add d).1) ({ batchSize := n } : Uncompressed)).samples).length ≤ n := by
  have hinv : ∀ (c : Uncompressed), c.samples.length ≤ c.batchSize →
      (ds.foldl (fun c d => (c.add d).1) c).samples.length ≤ (ds.foldl (fun c d => (c.add d).1) c).batchSize ∧
      (ds.foldl (fun c d => (c.add d).1) c).batchSize = c.batchSize := by
    induction ds with
    | nil => intro c h; exact ⟨h, rfl⟩
    | cons d ds ih =>
      intro c h
      have hb := add_bound c d h
      have := ih (c.add d).1 hb.1
      simp only [List.foldl_cons]
      exact ⟨this.1, by rw [this.2, hb.2]⟩
  have := hinv { batchSize := n } (by simp)
  have h2 := this.1
  rw [this.2] at h2; exact h2

/-- `Reset` discards the pending samples and keeps the encoding and the metadata -/
theorem reset_keeps_configuration (c : Uncompressed) :
    c.reset.samples = [] ∧ c.reset.batchSize = c.batchSize ∧ c.reset.metadata = c.metadata := by
  simp [Uncompressed.reset]

/-- streaming variant: a flush writes exactly the resolved documents, once, and empties the
collector without replacing it -/
theorem streaming_flush_exact (c : UStreaming) (docs : List BDoc) (hp : c.info.2 ≠ 0)
    (hr : c.resolve = some docs) :
    (c.flush).1.written = c.written ++ [docs] ∧ (c.flush).1.inner.samples = [] ∧
    (c.flush).1.inner.batchSize = c.inner.batchSize ∧ (c.flush).1.inner.metadata = c.inner.metadata := by
  simp [UStreaming.flush, hp, hr, UStreaming.reset, Uncompressed.reset]

/-- nothing is lost or duplicated by a flush: written ++ pending is unchanged as a multiset of
sample documents (metadata aside) -/
theorem streaming_flush_conserves (c : UStreaming) (hm : c.inner.metadata = none) :
    (c.flush).1.written.flatten ++ (c.flush).1.inner.samples = c.written.flatten ++ c.inner.samples := by
  unfold UStreaming.flush
  by_cases hp : c.info.2 = 0
  · simp [hp]
  · simp only [hp, ite_false]
    have hne : c.inner.samples ≠ [] := by
      intro h; apply hp; simp [UStreaming.info, Uncompressed.info, h]
    simp [UStreaming.resolve, Uncompressed.resolve, hne, hm, UStreaming.reset, Uncompressed.reset, Option.toList]

/-- the schema-aware variant resets in place: same wrapped collector, same encoding (fix F16) -/
theorem dynamic_reset_keeps_inner (c : UStreamingDynamic) :
    c.reset.s.inner.batchSize = c.s.inner.batchSize ∧ c.reset.s.inner.metadata = c.s.inner.metadata ∧
    c.reset.s.written = c.s.written := by
  simp [UStreamingDynamic.reset, UStreaming.reset, Uncompressed.reset]

/-! ### whole histories of the streaming variants -/

theorem flush_keeps_metadata (c : UStreaming) : (c.flush).1.inner.metadata = c.inner.metadata := by
  unfold UStreaming.flush
  by_cases hp : c.info.2 = 0
  · simp [hp]
  · simp only [hp, ite_false]
    cases hr : c.resolve with
    | none => rfl
    | some docs => simp [UStreaming.reset, Uncompressed.reset]

theorem inner_add_log (u : Uncompressed) (d : BDoc) :
    (u.add d).1.metadata = u.metadata ∧
    ((u.add d).2 = .ok → (u.add d).1.samples = u.samples ++ [d]) ∧
    ((u.add d).2 ≠ .ok → (u.add d).1.samples = u.samples) := by
  unfold Uncompressed.add
  dsimp only
  by_cases h1 : d.length ≠ (if u.metricCount = 0 then d.length else u.metricCount)
  · rw [if_pos h1]; simp
  · rw [if_neg h1]
    by_cases h2 : u.samples.length ≥ u.batchSize
    · rw [if_pos h2]; simp
    · rw [if_neg h2]; simp

/-- one `Add`, remembering the accepted documents -/
def uaddLog (acc : UStreaming × List BDoc) (d : BDoc) : UStreaming × List BDoc :=
  let r := acc.1.add d
  (r.1, if r.2 then acc.2 ++ [d] else acc.2)

theorem ustreaming_step (c : UStreaming) (acc : List BDoc) (d : BDoc) (hm : c.inner.metadata = none)
    (h : c.written.flatten ++ c.inner.samples = acc) :
    (uaddLog (c, acc) d).1.inner.metadata = none ∧
    (uaddLog (c, acc) d).1.written.flatten ++ (uaddLog (c, acc) d).1.inner.samples = (uaddLog (c, acc) d).2 := by
  have key : ∀ (c1 : UStreaming), c1.inner.metadata = none → c1.written.flatten ++ c1.inner.samples = acc →
      (let r := c1.inner.add d
       let c2 : UStreaming × Bool := if r.2 = .ok then ({ c1 with inner := r.1, count := c1.count + 1 }, true)
                                     else ({ c1 with inner := r.1 }, false)
       c2.1.inner.metadata = none ∧ c2.1.written.flatten ++ c2.1.inner.samples = (if c2.2 then acc ++ [d] else acc)) := by
    intro c1 hm1 h1
    obtain ⟨a1, a2, a3⟩ := inner_add_log c1.inner d
    by_cases hok : (c1.inner.add d).2 = .ok
    · simp only [hok, if_true]
      refine ⟨by rw [a1]; exact hm1, ?_⟩
      rw [a2 hok, ← List.append_assoc, h1]
    · simp only [hok, if_false]
      refine ⟨by rw [a1]; exact hm1, ?_⟩
      rw [a3 hok]; simpa using h1
  unfold uaddLog UStreaming.add
  by_cases hfull : c.count ≥ c.maxSamples
  · simp only [hfull, if_true]
    have hcons := streaming_flush_conserves c hm
    have hmeta := flush_keeps_metadata c
    by_cases hok : (c.flush).2 = true
    · simp only [hok, Bool.not_true, Bool.false_eq_true, if_false]
      have := key (c.flush).1 (by rw [hmeta]; exact hm) (by rw [hcons]; exact h)
      by_cases hacc : ((c.flush).1.inner.add d).2 = .ok <;> simp_all
    · have hok' : (c.flush).2 = false := by simpa using hok
      simp only [hok', Bool.not_false, if_true]
      exact ⟨by rw [hmeta]; exact hm, by rw [hcons]; simpa using h⟩
  · simp only [hfull, if_false, Bool.not_true, Bool.false_eq_true]
    have := key c hm h
    by_cases hacc : (c.inner.add d).2 = .ok <;> simp_all

/-- **The streaming uncompressed collector loses, duplicates and reorders nothing**: after any sequence
of `Add`s, what has been written followed by the pending documents is exactly the accepted documents,
byte for byte (they are the documents themselves), once each and in order. -/
theorem ustreaming_faithful_log (n : Nat) (ds : List BDoc) :
    let r := ds.foldl uaddLog (UStreaming.new n, [])
    r.1.written.flatten ++ r.1.inner.samples = r.2 := by
  have : ∀ (ds : List BDoc) (c : UStreaming) (acc : List BDoc), c.inner.metadata = none →
      c.written.flatten ++ c.inner.samples = acc →
      (ds.foldl uaddLog (c, acc)).1.written.flatten ++ (ds.foldl uaddLog (c, acc)).1.inner.samples =
        (ds.foldl uaddLog (c, acc)).2 := by
    intro ds
    induction ds with
    | nil => intro c acc _ h; exact h
    | cons d ds ih =>
      intro c acc hm h
      obtain ⟨h1, h2⟩ := ustreaming_step c acc d hm h
      simp only [List.foldl_cons]
      have e : uaddLog (c, acc) d = ((uaddLog (c, acc) d).1, (uaddLog (c, acc) d).2) := rfl
      rw [e]
      exact ih _ _ h1 h2
  exact this ds (UStreaming.new n) [] rfl (by simp [UStreaming.new])

/-! ### write faults (seeded change agent6-C17: a flush that resets although its write failed)

The writer may refuse any write (`wok = false`).  `flushW`/`addW` with `wok = true` are `flush`/`add`. -/

theorem flushW_true (c : UStreaming) : c.flushW true = c.flush := by
  unfold UStreaming.flushW UStreaming.flush
  split
  · rfl
  · split <;> simp

theorem addW_true (c : UStreaming) (d : BDoc) : c.addW d true = c.add d := by
  unfold UStreaming.addW UStreaming.add; rw [flushW_true]

/-- a refused write changes nothing at all -/
theorem flushW_refused_noop (c : UStreaming) : (c.flushW false).1 = c := by
  unfold UStreaming.flushW
  split
  · rfl
  · split <;> simp

theorem flushW_conserves (c : UStreaming) (wok : Bool) (hm : c.inner.metadata = none) :
    (c.flushW wok).1.written.flatten ++ (c.flushW wok).1.inner.samples = c.written.flatten ++ c.inner.samples ∧
    (c.flushW wok).1.inner.metadata = none := by
  cases wok with
  | true => rw [flushW_true]; exact ⟨streaming_flush_conserves c hm, by rw [flush_keeps_metadata]; exact hm⟩
  | false => rw [flushW_refused_noop]; exact ⟨rfl, hm⟩

/-- one operation, remembering the accepted documents -/
def stepF (acc : UStreaming × List BDoc) : UFOp → UStreaming × List BDoc
  | .add d wok => let r := acc.1.addW d wok; (r.1, if r.2 then acc.2 ++ [d] else acc.2)
  | .flush wok => ((acc.1.flushW wok).1, acc.2)

theorem stepF_inv (c : UStreaming) (acc : List BDoc) (op : UFOp) (hm : c.inner.metadata = none)
    (h : c.written.flatten ++ c.inner.samples = acc) :
    (stepF (c, acc) op).1.inner.metadata = none ∧
    (stepF (c, acc) op).1.written.flatten ++ (stepF (c, acc) op).1.inner.samples = (stepF (c, acc) op).2 := by
  cases op with
  | flush wok =>
    obtain ⟨h1, h2⟩ := flushW_conserves c wok hm
    exact ⟨h2, by simp only [stepF]; rw [h1]; exact h⟩
  | add d wok =>
    have key : ∀ (c1 : UStreaming), c1.inner.metadata = none → c1.written.flatten ++ c1.inner.samples = acc →
        (let r := c1.inner.add d
         let c2 : UStreaming × Bool := if r.2 = .ok then ({ c1 with inner := r.1, count := c1.count + 1 }, true)
                                       else ({ c1 with inner := r.1 }, false)
         c2.1.inner.metadata = none ∧ c2.1.written.flatten ++ c2.1.inner.samples = (if c2.2 then acc ++ [d] else acc)) := by
      intro c1 hm1 h1
      obtain ⟨a1, a2, a3⟩ := inner_add_log c1.inner d
      by_cases hok : (c1.inner.add d).2 = .ok
      · simp only [hok, if_true]
        refine ⟨by rw [a1]; exact hm1, ?_⟩
        rw [a2 hok, ← List.append_assoc, h1]
      · simp only [hok, if_false]
        refine ⟨by rw [a1]; exact hm1, ?_⟩
        rw [a3 hok]; simpa using h1
    simp only [stepF]
    unfold UStreaming.addW
    by_cases hfull : c.count ≥ c.maxSamples
    · simp only [hfull, if_true]
      obtain ⟨hcons, hmeta⟩ := flushW_conserves c wok hm
      by_cases hok : (c.flushW wok).2 = true
      · simp only [hok, Bool.not_true, Bool.false_eq_true, if_false]
        have := key (c.flushW wok).1 hmeta (by rw [hcons]; exact h)
        by_cases hacc : ((c.flushW wok).1.inner.add d).2 = .ok <;> simp_all
      · have hok' : (c.flushW wok).2 = false := by simpa using hok
        simp only [hok', Bool.not_false, if_true]
        exact ⟨hmeta, by rw [hcons]; simpa using h⟩
    · simp only [hfull, if_false, Bool.not_true, Bool.false_eq_true]
      have := key c hm h
      by_cases hacc : (c.inner.add d).2 = .ok <;> simp_all

/-- **write faults lose and duplicate nothing**: after any history of `Add`s and flushes in which the writer refuses any
of the writes, what has been written followed by what is pending is exactly the accepted documents, once each, in order -/
theorem conservation_under_write_faults (n : Nat) (ops : List UFOp) :
    let r := ops.foldl stepF (UStreaming.new n, [])
    r.1.written.flatten ++ r.1.inner.samples = r.2 := by
  have : ∀ (ops : List UFOp) (c : UStreaming) (acc : List BDoc), c.inner.metadata = none →
      c.written.flatten ++ c.inner.samples = acc →
      (ops.foldl stepF (c, acc)).1.written.flatten ++ (ops.foldl stepF (c, acc)).1.inner.samples =
        (ops.foldl stepF (c, acc)).2 := by
    intro ops
    induction ops with
    | nil => intro c acc _ h; exact h
    | cons op ops ih =>
      intro c acc hm h
      obtain ⟨h1, h2⟩ := stepF_inv c acc op hm h
      simp only [List.foldl_cons]
      have e : stepF (c, acc) op = ((stepF (c, acc) op).1, (stepF (c, acc) op).2) := rfl
      rw [e]
      exact ih _ _ h1 h2
  exact this ops (UStreaming.new n) [] rfl (by simp [UStreaming.new])

/-- and once the writer works again, one flush delivers everything: the writer holds exactly the accepted documents -/
theorem flush_after_faults_delivers_everything (n : Nat) (ops : List UFOp) :
    ((ops ++ [UFOp.flush true]).foldl stepF (UStreaming.new n, [])).1.inner.samples = [] →
    ((ops ++ [UFOp.flush true]).foldl stepF (UStreaming.new n, [])).1.written.flatten
      = ((ops ++ [UFOp.flush true]).foldl stepF (UStreaming.new n, [])).2 := by
  intro hs
  have := conservation_under_write_faults n (ops ++ [UFOp.flush true])
  simp only at this
  rw [hs, List.append_nil] at this
  exact this

/-- non-vacuity: a refused full-batch write, then a working one -/
example : ([UFOp.add .nil true, UFOp.add .nil false, UFOp.flush true].foldl stepF (UStreaming.new 1, [])).1.written.flatten.length = 1
    ∧ ([UFOp.add .nil true, UFOp.add .nil false, UFOp.flush true].foldl stepF (UStreaming.new 1, [])).2.length = 1 := by decide

/-! ### the schema-aware variant under write faults -/

theorem dflushW_true (c : UStreamingDynamic) : c.flushW true = c.flush := by
  unfold UStreamingDynamic.flushW UStreamingDynamic.flush; rw [flushW_true]

theorem daddW_true (c : UStreamingDynamic) (d : BDoc) : c.addW d true true = c.add d := by
  simp only [UStreamingDynamic.addW, UStreamingDynamic.addWWith, UStreamingDynamic.needFlush, UStreamingDynamic.add,
    dflushW_true, addW_true]

theorem dflushW_conserves (c : UStreamingDynamic) (wok : Bool) (hm : c.s.inner.metadata = none) :
    (c.flushW wok).1.s.written.flatten ++ (c.flushW wok).1.s.inner.samples = c.s.written.flatten ++ c.s.inner.samples ∧
    (c.flushW wok).1.s.inner.metadata = none := by
  obtain ⟨h1, h2⟩ := flushW_conserves c.s wok hm
  unfold UStreamingDynamic.flushW
  dsimp only
  split <;> exact ⟨h1, h2⟩

/-- one `Add` of the streaming layer with a writer that may refuse keeps written ++ pending = log -/
theorem addW_inv (c : UStreaming) (acc : List BDoc) (d : BDoc) (wok : Bool) (hm : c.inner.metadata = none)
    (h : c.written.flatten ++ c.inner.samples = acc) :
    (c.addW d wok).1.inner.metadata = none ∧
    (c.addW d wok).1.written.flatten ++ (c.addW d wok).1.inner.samples = (if (c.addW d wok).2 then acc ++ [d] else acc) :=
  stepF_inv c acc (.add d wok) hm h

def stepD (acc : UStreamingDynamic × List BDoc) : UDOp → UStreamingDynamic × List BDoc
  | .add d w1 w2 => let r := acc.1.addW d w1 w2; (r.1, if r.2 then acc.2 ++ [d] else acc.2)
  | .flush wok => ((acc.1.flushW wok).1, acc.2)

theorem stepD_inv (c : UStreamingDynamic) (acc : List BDoc) (op : UDOp) (hm : c.s.inner.metadata = none)
    (h : c.s.written.flatten ++ c.s.inner.samples = acc) :
    (stepD (c, acc) op).1.s.inner.metadata = none ∧
    (stepD (c, acc) op).1.s.written.flatten ++ (stepD (c, acc) op).1.s.inner.samples = (stepD (c, acc) op).2 := by
  cases op with
  | flush wok =>
    obtain ⟨h1, h2⟩ := dflushW_conserves c wok hm
    exact ⟨h2, by simp only [stepD]; rw [h1]; exact h⟩
  | add d w1 w2 =>
    simp only [stepD]
    unfold UStreamingDynamic.addW UStreamingDynamic.addWWith
    dsimp only
    generalize c.needFlush d = nf
    cases nf with
    | true =>
      simp only [if_true]
      obtain ⟨h1, h2⟩ := dflushW_conserves c w1 hm
      by_cases hok : (c.flushW w1).2 = true
      · simp only [hok, Bool.not_true, Bool.false_eq_true, if_false]
        exact addW_inv (c.flushW w1).1.s acc d w2 h2 (by rw [h1]; exact h)
      · have hok' : (c.flushW w1).2 = false := by simpa using hok
        simp only [hok', Bool.not_false, if_true]
        exact ⟨h2, by rw [h1]; simpa using h⟩
    | false =>
      simp only [Bool.false_eq_true, if_false, Bool.not_true]
      exact addW_inv c.s acc d w2 hm h

/-- **the schema-aware uncompressed collector under write faults**: schema changes, full batches and explicit flushes with
any pattern of refused writes lose and duplicate nothing -/
theorem dynamic_conservation_under_write_faults (n : Nat) (ops : List UDOp) :
    let r := ops.foldl stepD (UStreamingDynamic.new n, [])
    r.1.s.written.flatten ++ r.1.s.inner.samples = r.2 := by
  have : ∀ (ops : List UDOp) (c : UStreamingDynamic) (acc : List BDoc), c.s.inner.metadata = none →
      c.s.written.flatten ++ c.s.inner.samples = acc →
      (ops.foldl stepD (c, acc)).1.s.written.flatten ++ (ops.foldl stepD (c, acc)).1.s.inner.samples =
        (ops.foldl stepD (c, acc)).2 := by
    intro ops
    induction ops with
    | nil => intro c acc _ h; exact h
    | cons op ops ih =>
      intro c acc hm h
      obtain ⟨h1, h2⟩ := stepD_inv c acc op hm h
      simp only [List.foldl_cons]
      have e : stepD (c, acc) op = ((stepD (c, acc) op).1, (stepD (c, acc) op).2) := rfl
      rw [e]
      exact ih _ _ h1 h2
  exact this ops (UStreamingDynamic.new n) [] rfl (by simp [UStreamingDynamic.new, UStreaming.new])

/-! non-vacuity -/
example : Inv ({ batchSize := 2 } : Uncompressed) := ⟨by simp, by simp, by simp⟩

end Ftdc.Props.C17
