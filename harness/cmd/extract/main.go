// extract: regenerates lean/FtdcVerif/Gen/Facts.lean from /repo's current sources:
// channel capacities, the genny chunk size, and the lock/unlock/return skeleton of every method
// that takes a mutex (interval recorders, synchronized recorder and collectors, catcher).
package main

import (
	"flag"
	"fmt"
	"go/ast"
	"go/parser"
	"go/token"
	"os"
	"path/filepath"
	"sort"
	"strings"
)

type sk struct {
	kind string // lock unlock deferUnlock ret seq branch loop
	kids []*sk
}

func (s *sk) lean() string {
	switch s.kind {
	case "lock", "unlock", "deferUnlock", "ret":
		return "." + s.kind
	}
	var parts []string
	for _, k := range s.kids {
		parts = append(parts, k.lean())
	}
	return fmt.Sprintf("(.%s (sl [%s]))", s.kind, strings.Join(parts, ", "))
}

func (s *sk) hasLock() bool {
	if s.kind == "lock" {
		return true
	}
	for _, k := range s.kids {
		if k.hasLock() {
			return true
		}
	}
	return false
}

func lockCall(e ast.Expr) string {
	c, ok := e.(*ast.CallExpr)
	if !ok || len(c.Args) != 0 {
		return ""
	}
	sel, ok := c.Fun.(*ast.SelectorExpr)
	if !ok {
		return ""
	}
	switch sel.Sel.Name {
	case "Lock", "RLock":
		return "lock"
	case "Unlock", "RUnlock":
		return "unlock"
	}
	return ""
}

func block(stmts []ast.Stmt) *sk {
	s := &sk{kind: "seq"}
	for _, st := range stmts {
		if k := stmt(st); k != nil {
			s.kids = append(s.kids, k)
		}
	}
	return s
}

func stmt(st ast.Stmt) *sk {
	switch x := st.(type) {
	case *ast.ExprStmt:
		if k := lockCall(x.X); k != "" {
			return &sk{kind: k}
		}
	case *ast.DeferStmt:
		if lockCall(x.Call) == "unlock" {
			return &sk{kind: "deferUnlock"}
		}
	case *ast.ReturnStmt:
		return &sk{kind: "ret"}
	case *ast.BlockStmt:
		return block(x.List)
	case *ast.IfStmt:
		b := &sk{kind: "branch", kids: []*sk{block(x.Body.List)}}
		if x.Else != nil {
			b.kids = append(b.kids, stmt(x.Else))
		} else {
			b.kids = append(b.kids, &sk{kind: "seq"})
		}
		return b
	case *ast.ForStmt:
		return &sk{kind: "loop", kids: []*sk{block(x.Body.List)}}
	case *ast.RangeStmt:
		return &sk{kind: "loop", kids: []*sk{block(x.Body.List)}}
	case *ast.SelectStmt:
		b := &sk{kind: "branch"}
		for _, c := range x.Body.List {
			b.kids = append(b.kids, block(c.(*ast.CommClause).Body))
		}
		return b
	case *ast.SwitchStmt:
		b := &sk{kind: "branch"}
		hasDefault := false
		for _, c := range x.Body.List {
			cc := c.(*ast.CaseClause)
			if cc.List == nil {
				hasDefault = true
			}
			b.kids = append(b.kids, block(cc.Body))
		}
		if !hasDefault {
			b.kids = append(b.kids, &sk{kind: "seq"})
		}
		return b
	case *ast.TypeSwitchStmt:
		b := &sk{kind: "branch"}
		for _, c := range x.Body.List {
			b.kids = append(b.kids, block(c.(*ast.CaseClause).Body))
		}
		b.kids = append(b.kids, &sk{kind: "seq"})
		return b
	case *ast.LabeledStmt:
		return stmt(x.Stmt)
	}
	return nil
}

// isDoneRecv: `<-x.Done()` as a statement or the right-hand side of an assignment
func isDoneRecv(st ast.Stmt) bool {
	var e ast.Expr
	switch x := st.(type) {
	case *ast.ExprStmt:
		e = x.X
	case *ast.AssignStmt:
		if len(x.Rhs) == 1 {
			e = x.Rhs[0]
		}
	}
	u, ok := e.(*ast.UnaryExpr)
	if !ok {
		return false
	}
	c, ok := u.X.(*ast.CallExpr)
	if !ok {
		return false
	}
	sel, ok := c.Fun.(*ast.SelectorExpr)
	return ok && sel.Sel.Name == "Done"
}

func recvName(f *ast.FuncDecl) string {
	if f.Recv == nil || len(f.Recv.List) == 0 {
		return ""
	}
	t := f.Recv.List[0].Type
	if s, ok := t.(*ast.StarExpr); ok {
		t = s.X
	}
	if id, ok := t.(*ast.Ident); ok {
		return id.Name
	}
	return ""
}

// capacity of `make(chan T, n)` assigned/used for the named field or variable in the file
func chanCaps(file *ast.File) map[string][]string {
	out := map[string][]string{}
	ast.Inspect(file, func(n ast.Node) bool {
		switch x := n.(type) {
		case *ast.KeyValueExpr:
			if k, ok := x.Key.(*ast.Ident); ok {
				if c := makeChanCap(x.Value); c != "" {
					out[k.Name] = append(out[k.Name], c)
				}
			}
		case *ast.AssignStmt:
			if len(x.Lhs) == 1 && len(x.Rhs) == 1 {
				if c := makeChanCap(x.Rhs[0]); c != "" {
					if id, ok := x.Lhs[0].(*ast.Ident); ok {
						out[id.Name] = append(out[id.Name], c)
					}
				}
			}
		}
		return true
	})
	return out
}

func makeChanCap(e ast.Expr) string {
	c, ok := e.(*ast.CallExpr)
	if !ok {
		return ""
	}
	if id, ok := c.Fun.(*ast.Ident); !ok || id.Name != "make" || len(c.Args) == 0 {
		return ""
	}
	if _, ok := c.Args[0].(*ast.ChanType); !ok {
		return ""
	}
	if len(c.Args) == 1 {
		return "0"
	}
	if lit, ok := c.Args[1].(*ast.BasicLit); ok {
		return lit.Value
	}
	return "?"
}

func constVal(file *ast.File, name string) string {
	val := ""
	ast.Inspect(file, func(n ast.Node) bool {
		if vs, ok := n.(*ast.ValueSpec); ok {
			for i, id := range vs.Names {
				if id.Name == name && i < len(vs.Values) {
					if lit, ok := vs.Values[i].(*ast.BasicLit); ok {
						val = lit.Value
					}
				}
			}
		}
		return true
	})
	return val
}

func main() {
	repo := flag.String("repo", "/repo", "repository root")
	out := flag.String("out", "", "output Lean file")
	code := flag.String("code", "", "output Lean file for the translated integer code (Gen/Code.lean)")
	flag.Parse()
	fset := token.NewFileSet()
	parse := func(rel string) *ast.File {
		f, err := parser.ParseFile(fset, filepath.Join(*repo, rel), nil, 0)
		if err != nil {
			fmt.Fprintln(os.Stderr, "extract:", err)
			os.Exit(1)
		}
		return f
	}
	if *code != "" {
		if err := os.WriteFile(*code, []byte(translateCode(parse)), 0o644); err != nil {
			fmt.Fprintln(os.Stderr, "extract:", err)
			os.Exit(1)
		}
		if *out == "" {
			return
		}
	}
	var b strings.Builder
	b.WriteString("/- GENERATED by harness/cmd/extract from /repo's working tree on every run. Do not edit. -/\n")
	b.WriteString("import FtdcVerif.Model.LockSkeleton\nnamespace Ftdc.Gen\nopen Ftdc.LockSkeleton\n\n")
	one := func(m map[string][]string, k string) string {
		v := m[k]
		if len(v) == 0 {
			return "0 /- not found -/"
		}
		for _, x := range v {
			if x != v[0] {
				return "0 /- inconsistent: " + strings.Join(v, ",") + " -/"
			}
		}
		return v[0]
	}
	ci := chanCaps(parse("iterator_chunk.go"))
	it := chanCaps(parse("iterator.go"))
	sm := chanCaps(parse("iterator_sample.go"))
	fmt.Fprintf(&b, "def chunkPipeCap : Nat := %s\n", one(ci, "pipe"))
	fmt.Fprintf(&b, "def ipcCap : Nat := %s\n", one(ci, "ipc"))
	var docCaps []string
	for _, c := range it["pipe"] {
		docCaps = append(docCaps, c)
	}
	sort.Strings(docCaps)
	fmt.Fprintf(&b, "def iteratorPipeCaps : List Nat := [%s]\n", strings.Join(docCaps, ", "))
	fmt.Fprintf(&b, "def sampleStreamCap : Nat := %s\n", one(sm, "out"))
	fmt.Fprintf(&b, "def gennyMaxSamples : Nat := %s\n\n", constVal(parse("t2.go"), "max_samples"))

	files := []string{"events/recorder_performance_interval.go", "events/recorder_histogram_interval.go",
		"events/recorder_wrapper_sync.go", "events/collector.go", "collector_sync.go", "util/catcher.go"}
	var entries []string
	for _, rel := range files {
		f := parse(rel)
		for _, d := range f.Decls {
			fd, ok := d.(*ast.FuncDecl)
			if !ok || fd.Body == nil {
				continue
			}
			s := block(fd.Body.List)
			if !s.hasLock() {
				continue
			}
			name := strings.TrimSuffix(filepath.Base(rel), ".go") + "." + recvName(fd) + "." + fd.Name.Name
			entries = append(entries, fmt.Sprintf("  (%q, %s)", name, s.lean()))
		}
	}
	// ---- cancellation facts of the reader pipeline (C06) ----
	readerFiles := []string{"read.go", "iterator.go", "iterator_chunk.go", "iterator_combined.go", "iterator_matrix.go", "iterator_sample.go"}
	var selFacts, bare, closeFacts []string
	for _, rel := range readerFiles {
		f := parse(rel)
		for _, d := range f.Decls {
			fd, ok := d.(*ast.FuncDecl)
			if !ok || fd.Body == nil {
				continue
			}
			name := strings.TrimSuffix(filepath.Base(rel), ".go") + "." + recvName(fd) + "." + fd.Name.Name
			k := 0
			inSelect := map[ast.Node]bool{}
			ast.Inspect(fd.Body, func(n ast.Node) bool {
				switch x := n.(type) {
				case *ast.SelectStmt:
					arm := false
					for _, c := range x.Body.List {
						cc := c.(*ast.CommClause)
						if cc.Comm == nil {
							arm = true // default: never blocks
							continue
						}
						inSelect[cc.Comm] = true
						if isDoneRecv(cc.Comm) {
							arm = true
						}
					}
					selFacts = append(selFacts, fmt.Sprintf("  (\"%s#%d\", %v)", name, k, arm))
					k++
				case *ast.SendStmt:
					if !inSelect[x] {
						bare = append(bare, fmt.Sprintf("%q", name))
					}
				}
				return true
			})
			if fd.Name.Name == "Close" && fd.Recv != nil && len(fd.Recv.List) == 1 && len(fd.Recv.List[0].Names) == 1 {
				recv := fd.Recv.List[0].Names[0].Name
				cancels := false
				ast.Inspect(fd.Body, func(n ast.Node) bool {
					if c, ok := n.(*ast.CallExpr); ok {
						if sel, ok := c.Fun.(*ast.SelectorExpr); ok {
							if id, ok := sel.X.(*ast.Ident); ok && id.Name == recv && (sel.Sel.Name == "closer" || sel.Sel.Name == "cancel") {
								cancels = true
							}
						}
					}
					return true
				})
				closeFacts = append(closeFacts, fmt.Sprintf("  (%q, %v)", name, cancels))
			}
		}
	}
	b.WriteString("/-- every `select` of the reader pipeline: does it have a `<-ctx.Done()` arm (or a default)? -/\n")
	b.WriteString("def selectFacts : List (String × Bool) := [\n" + strings.Join(selFacts, ",\n") + "\n]\n\n")
	b.WriteString("/-- channel sends of the reader pipeline that are not an arm of a `select` -/\n")
	b.WriteString("def bareSends : List String := [" + strings.Join(bare, ", ") + "]\n\n")
	b.WriteString("/-- every `Close` method of the reader pipeline: does it call the iterator's own cancel function? -/\n")
	b.WriteString("def closeFacts : List (String × Bool) := [\n" + strings.Join(closeFacts, ",\n") + "\n]\n\n")

	b.WriteString("/-- lock / unlock / return skeleton of every method that takes a mutex -/\n")
	b.WriteString("def lockSkeletons : List (String × Sk) := [\n" + strings.Join(entries, ",\n") + "\n]\n\nend Ftdc.Gen\n")
	if *out == "" {
		fmt.Print(b.String())
		return
	}
	if err := os.WriteFile(*out, []byte(b.String()), 0o644); err != nil {
		fmt.Fprintln(os.Stderr, "extract:", err)
		os.Exit(1)
	}
}
