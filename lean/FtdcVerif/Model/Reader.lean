import FtdcVerif.Model.Codec
/-
  read.go: framing of the outer stream (`readDiagnostic`/`readBufBSON`), the chunk decoder
  (`readChunks`) and the sequential meaning of the goroutine pipeline (the schedules are
  C05/C06).  zlib is a parameter: `inflate z = none` when `zlib.NewReader` rejects the header,
  `some (data, clean)` = the bytes the stream delivers and whether it then ends cleanly
  (valid checksum, no corruption).
-/
namespace Ftdc

abbrev Inflate := Bytes → Option (Bytes × Bool)

/-- `isNum(n, v)` for n = 0, 1 -/
def isNum (n : Nat) : Option BVal → Bool
  | some (.int32 v) => v.toNat = n
  | some (.int64 v) => v.toNat = n
  | some (.double b) =>
      if n = 0 then b = 0#64 ∨ b = 0x8000000000000000#64 else b = 0x3FF0000000000000#64
  | _ => false

/-- birch `Lookup`: with duplicate keys the sorted index returns the element inserted last -/
def lookupLast (key : Bytes) (d : BDoc) : Option BVal :=
  (d.toList.filter (·.1 = key)).getLast?.map (·.2)

def keyType : Bytes := [116, 121, 112, 101]     -- "type"
def keyData : Bytes := [100, 97, 116, 97]       -- "data"
def keyId : Bytes := [95, 105, 100]             -- "_id"

/-- the bytes `Value.Binary()` returns for a binary value (raw = le32 len, subtype, bytes) -/
def binaryPayload (raw : Bytes) : Bytes :=
  if raw.getD 4 0 = 2 then raw.drop 9 else raw.drop 5

inductive ReadErr where
  | frame          -- stream ends inside a document, size word < 5, malformed BSON
  | noData | dataType | dataShort | zlibHeader
  | payload (e : DecodeErr)
  | zlibStream     -- corruption / bad checksum after the last delta
  deriving Repr, DecidableEq

/-- one top-level document in `readChunks` -/
def processDoc (inflate : Inflate) (doc : BDoc) (md : Option BDoc) :
    Except ReadErr (Option BDoc × Option Chunk) :=
  let ty := lookupLast keyType doc
  if isNum 0 ty then .ok (some doc, none)
  else if !isNum 1 ty then .ok (md, none)
  else
    let id := match lookupLast keyId doc with
      | some (.datetime ms) => some ms
      | _ => none
    match lookupLast keyData doc with
    | none => .error .noData
    | some (.other 0x05 raw) =>
      let z := binaryPayload raw
      if z.length < 4 then .error .dataShort else
      match inflate (z.drop 4) with
      | none => .error .zlibHeader
      | some (p, clean) =>
        match decodePayload p with
        | .error e => .error (.payload e)
        | .ok c => if clean then .ok (md, some { c with id := id, metadata := md }) else .error .zlibStream
    | some _ => .error .dataType

structure ReadResult where
  chunks : List Chunk
  err : Option ReadErr

/-- frame one document off the front of the stream: `none` at a clean end -/
def frame (bs : Bytes) : Except ReadErr (Option (Bytes × Bytes)) :=
  if bs = [] then .ok none else
  match takeN 4 bs with
  | none => .error .frame
  | some (lb, _) =>
    let l := rdLe lb
    if l < 5 ∨ l ≥ 2 ^ 31 then .error .frame else
    match takeN l bs with
    | none => .error .frame
    | some (db, rest) => .ok (some (db, rest))

def readAllAux (inflate : Inflate) : Nat → Bytes → Option BDoc → List Chunk → ReadResult
  | 0, _, _, acc => ⟨acc, some .frame⟩
  | fuel+1, bs, md, acc =>
    match frame bs with
    | .error e => ⟨acc, some e⟩
    | .ok none => ⟨acc, none⟩
    | .ok (some (db, rest)) =>
      match parseDoc db with
      | none => ⟨acc, some .frame⟩
      | some doc =>
        match processDoc inflate doc md with
        | .error e => ⟨acc, some e⟩
        | .ok (md', none) => readAllAux inflate fuel rest md' acc
        | .ok (md', some c) => readAllAux inflate fuel rest md' (acc ++ [c])

/-- `ReadChunks` to exhaustion: the chunks delivered and whether `Err()` is non-nil -/
def readAll (inflate : Inflate) (bs : Bytes) : ReadResult :=
  readAllAux inflate (bs.length + 1) bs none []

end Ftdc
