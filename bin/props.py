# per-property configuration of bin/check: correspondence streams, evidence rule text
PROPS = {
    "C12": {
        "streams": ["hdr-grid", "hdr-stat"],
        "rule": "hdr-grid: every v in -1..max+2 for a grid of small configurations (public API only), plus random "
                "configurations up to 2^40 with values at bucket/sub-bucket boundaries +-1 (verif-tagged probe); "
                "hdr-stat: random multisets, merges, windows, import/export. A case is non-trivial/distinct when it "
                "lands in a distinct (configuration, counts index) pair resp. yields a distinct counts array.",
        "level_text": "Theorems (Props/C12.lean) for every valid configuration and every value: recording v <= highest succeeds in every "
                      "reachable state, v lies in its reported range, the range width is the unit or at most v*10^-sigfigs, total = number "
                      "accepted = sum of counts, rejection is a no-op. Proved over Nat from the literal bitLen cascade and sizing loop of the "
                      "model; the model is tied to hdr.go by exhaustive small grids and boundary-biased large configurations on every run.",
        "level_note": "Proof is about the Lean model; trusted: Lean kernel, propext/Classical.choice/Quot.sound, the correspondence harness. "
                      "Preconditions: sigfigs 1..5, lowest < 2^40, highest < 2^62 (no int64 overflow; float steps of New exact). "
                      "The clause 'total = sum of Distribution() bar counts' is proved as total = sum of the counts array; the iterator walk "
                      "producing the bars is compared by the correspondence run (hdr-stat barsum) and treated in C13.",
        "assumptions": [
            "int64 arithmetic of hdr.go does not overflow for highest < 2^62, lowest < 2^40 (theorems carry this precondition)",
            "math.Log2/Ceil/Floor/Pow steps of New equal the integer functions of the model (checked on every generated configuration)",
        ],
    },
}
