import FtdcVerif.Lemmas.Collector
/-!
# C07 — collectors are faithful, bounded logs under every operation history

`COp` is the collector interface; `Better.accepted` is the specification log (the samples whose
`Add` returned nil since the last `Reset`).  The theorems quantify over *all* operation lists.
The base and batch collectors are proved here; the dynamic and streaming collectors are
compositions of these (their chunks are batch/base collectors) and are compared with the
implementation over exhaustive short and random long histories by the `hist` stream.
-/
namespace Ftdc.Props.C07
open Ftdc

/-- **Faithful log (base collector), every history**: what the collector holds — and what
`Resolve` renders — is exactly the samples accepted since the last `Reset`, once, in order. -/
theorem base_faithful_log (n : Nat) (ops : List COp) :
    ((({ maxDeltas := n } : Better).run ops).samples) = Better.accepted { maxDeltas := n } [] ops := by
  have := Better.faithful_log ops { maxDeltas := n }
  simpa [Better.samples] using this

/-- `Resolve` renders exactly the held samples (and fails exactly when there are none). -/
theorem base_resolve_is_log (c : Better) (o : List OutDoc) (h : c.resolve = some o) :
    (o.map OutDoc.samples).flatten = c.samples :=
  Better.resolve_samples c o h

theorem base_resolve_fails_iff_empty (c : Better) : c.resolve = none ↔ c.samples = [] :=
  Better.resolve_none_iff c

/-- **Bounded, every history**: a chunk never holds more than its capacity (the base collector's
documented N + 1: the reference sample does not count). -/
theorem base_chunk_bounded (n : Nat) (ops : List COp) :
    ((({ maxDeltas := n } : Better).run ops).samples).length ≤ n + 1 := by
  have hinv := Better.run_inv ops _ (Better.fresh_inv n)
  have := Better.samples_bounded _ hinv
  have hm : (({ maxDeltas := n } : Better).run ops).maxDeltas = n := by
    clear this hinv
    generalize hc : ({ maxDeltas := n } : Better) = c
    have : c.maxDeltas = n := by rw [← hc]
    clear hc
    induction ops generalizing c with
    | nil => simpa [Better.run] using this
    | cons op ops ih =>
      simp only [Better.run, List.foldl_cons]
      apply ih
      cases op <;> simp [Better.step, Better.add_maxDeltas, Better.reset, Better.setMetadata, this]
  omega

/-- the reported sample count is the number of held (accepted, not discarded) samples -/
theorem base_info_counts (n : Nat) (ops : List COp) :
    (({ maxDeltas := n } : Better).run ops).info.2 = ((({ maxDeltas := n } : Better).run ops).samples).length :=
  Better.info_counts_samples _ (Better.run_inv ops _ (Better.fresh_inv n))

/-- a rejected `Add` (capacity, metric count, value types) changes nothing -/
theorem base_rejected_add_noop (c : Better) (d : BDoc) (h : (c.add d).2 ≠ .ok) : (c.add d).1 = c :=
  Better.add_rejected_noop c d h

/-- `Reset` discards every sample; the collector then accepts a first sample like a fresh one -/
theorem base_reset_discards (c : Better) (d : BDoc) :
    c.reset.samples = [] ∧ (c.reset.add d).2 = .ok ∧ (c.reset.add d).1.samples = [(extractDoc d).map (·.1)] := by
  simp [Better.reset, Better.samples, Better.add]

/-- **Batch collector**: an accepted `Add` appends exactly that sample; a rejected one changes
nothing; chunks hold at most N samples and only the last chunk may hold fewer — for every
reachable state (`Batch.Inv` holds initially and is preserved by `Add`; `Reset` re-creates the
initial state). -/
theorem batch_add_appends (b : Batch) (d : BDoc) (hi : b.Inv) (h : (b.add d).2 = .ok) :
    (b.add d).1.samples = b.samples ++ [(extractDoc d).map (·.1)] :=
  Batch.add_ok_appends b d hi h

theorem batch_rejected_add_noop (b : Batch) (d : BDoc) (hi : b.Inv) (h : (b.add d).2 ≠ .ok) :
    (b.add d).1 = b :=
  Batch.add_rejected_noop b d hi h

theorem batch_run_inv (n : Nat) (ds : List BDoc) : ∀ (b0 : Batch), b0.Inv ∧ b0.maxSamples = n →
    (ds.foldl (fun b d => (b.add d).1) b0).Inv ∧ (ds.foldl (fun b d => (b.add d).1) b0).maxSamples = n := by
  induction ds with
  | nil => intro b0 h0; simpa using h0
  | cons d ds ih =>
    intro b0 h0
    simp only [List.foldl_cons]
    apply ih
    refine ⟨Batch.add_inv b0 d h0.1, ?_⟩
    have : (b0.add d).1.maxSamples = b0.maxSamples := by
      unfold Batch.add; split
      · rfl
      · split <;> rfl
    rw [this]; exact h0.2

theorem batch_chunks_bounded_all_histories (n : Nat) (hn : 1 ≤ n) (ds : List BDoc) :
    (∀ c ∈ (ds.foldl (fun b d => (b.add d).1) (Batch.new n)).chunks, c.samples.length ≤ n) ∧
    (∀ c ∈ (ds.foldl (fun b d => (b.add d).1) (Batch.new n)).chunks.dropLast, c.samples.length = n) := by
  have hinv := batch_run_inv n ds (Batch.new n) ⟨Batch.new_inv n hn, rfl⟩
  constructor
  · intro c hc; have := (hinv.1.each c hc).2.2; rw [hinv.2] at this; exact this
  · intro c hc; have := hinv.1.full c hc; rw [hinv.2] at this; exact this

/-! ### the streaming collector: writer ++ pending = accepted, over whole histories -/

/-- the samples in the complete writes of a writer, in order -/
def writtenRows (w : Writer) : List Row :=
  (w.log.map fun e => match e with
    | WEntry.full docs => (docs.map OutDoc.samples).flatten
    | WEntry.partialWrite _ _ => []).flatten

/-- one `Add`, remembering the accepted documents -/
def addLog (acc : Streaming × List BDoc) (d : BDoc) : Streaming × List BDoc :=
  let r := acc.1.add d
  (r.1, if r.2 = .ok then acc.2 ++ [d] else acc.2)

theorem resolve_samples (b : Better) (docs : List OutDoc) (h : b.resolve = some docs) :
    (docs.map OutDoc.samples).flatten = b.samples := by
  unfold Better.resolve at h
  cases hr : b.ref with
  | none => simp [hr] at h
  | some r =>
    simp only [hr] at h
    cases hm : b.metadata with
    | none => simp [hm] at h; subst h; simp [OutDoc.samples, Better.samples, hr]
    | some md => simp [hm] at h; subst h; simp [OutDoc.samples, Better.samples, hr]

/-- one step of the invariant `written ++ pending = accepted` -/
theorem streaming_step (c : Streaming) (acc : List BDoc) (d : BDoc) (hs : c.out.script = [])
    (h : writtenRows c.out ++ c.inner.samples = acc.map fun x => (extractDoc x).map (·.1)) :
    (addLog (c, acc) d).1.out.script = [] ∧
    writtenRows (addLog (c, acc) d).1.out ++ (addLog (c, acc) d).1.inner.samples =
      (addLog (c, acc) d).2.map fun x => (extractDoc x).map (·.1) := by
  -- the state after the implicit flush (if any): same invariant, same accepted list
  have key : ∀ (c1 : Streaming), c1.out.script = [] →
      writtenRows c1.out ++ c1.inner.samples = acc.map (fun x => (extractDoc x).map (·.1)) →
      (let r := c1.inner.add d
       let c2 : Streaming := if r.2 = .ok then { c1 with inner := r.1, count := c1.count + 1 } else c1
       c2.out.script = [] ∧ writtenRows c2.out ++ c2.inner.samples =
         (if r.2 = .ok then acc ++ [d] else acc).map fun x => (extractDoc x).map (·.1)) := by
    intro c1 hs1 h1
    by_cases hok : (c1.inner.add d).2 = .ok
    · simp only [hok, if_true]
      refine ⟨hs1, ?_⟩
      rw [Better.add_ok_appends _ _ hok, ← List.append_assoc, h1]; simp
    · simp only [hok, if_false]; exact ⟨hs1, h1⟩
  unfold addLog Streaming.add
  by_cases hfull : c.count ≥ c.maxSamples
  · simp only [hfull, if_true]
    unfold Streaming.flush
    by_cases h0 : c.info.2 = 0
    · simp only [h0, if_true, Bool.not_true, Bool.false_eq_true, if_false]
      have := key c hs h
      by_cases hok : (c.inner.add d).2 = .ok <;> simp_all
    · simp only [h0, if_false]
      cases hres : c.resolve with
      | none => simp [hs, h]
      | some docs =>
        simp only [Writer.write, hs]
        have hsam := resolve_samples c.inner docs hres
        have h1 : writtenRows ({ c with out := { c.out with log := c.out.log ++ [WEntry.full docs] } } : Streaming).reset.out ++
            ({ c with out := { c.out with log := c.out.log ++ [WEntry.full docs] } } : Streaming).reset.inner.samples =
            acc.map fun x => (extractDoc x).map (·.1) := by
          simp only [Streaming.reset, writtenRows, List.map_append, List.flatten_append, List.map_cons,
            List.map_nil, List.flatten_cons, List.flatten_nil, List.append_nil, hsam]
          simp only [Better.reset, Better.samples, Option.isSome_none, Bool.false_eq_true, if_false, List.append_nil]
          exact h
        have := key ({ c with out := { c.out with log := c.out.log ++ [WEntry.full docs] } } : Streaming).reset hs h1
        by_cases hok : ((({ c with out := { c.out with log := c.out.log ++ [WEntry.full docs] } } : Streaming).reset).inner.add d).2 = .ok <;>
          simp_all
  · simp only [hfull, if_false, Bool.not_true, Bool.false_eq_true]
    have := key c hs h
    by_cases hok : (c.inner.add d).2 = .ok <;> simp_all

/-- **The streaming collector loses, duplicates and reorders nothing**: after any sequence of `Add`
calls over a writer that accepts every write, the samples in the writer followed by the pending
ones are exactly the accepted samples, once each and in order. -/
theorem streaming_faithful_log (n : Nat) (ds : List BDoc) :
    let r := ds.foldl addLog (Streaming.new n, [])
    writtenRows r.1.out ++ r.1.inner.samples = r.2.map fun x => (extractDoc x).map (·.1) := by
  have : ∀ (ds : List BDoc) (c : Streaming) (acc : List BDoc), c.out.script = [] →
      writtenRows c.out ++ c.inner.samples = acc.map (fun x => (extractDoc x).map (·.1)) →
      writtenRows (ds.foldl addLog (c, acc)).1.out ++ (ds.foldl addLog (c, acc)).1.inner.samples =
        (ds.foldl addLog (c, acc)).2.map fun x => (extractDoc x).map (·.1) := by
    intro ds
    induction ds with
    | nil => intro c acc _ h; exact h
    | cons d ds ih =>
      intro c acc hs h
      obtain ⟨h1, h2⟩ := streaming_step c acc d hs h
      simp only [List.foldl_cons]
      have e : addLog (c, acc) d = ((addLog (c, acc) d).1, (addLog (c, acc) d).2) := rfl
      rw [e]
      exact ih _ _ h1 h2
  exact this ds (Streaming.new n) [] rfl (by simp [writtenRows, Streaming.new, Better.samples])

/-- a flush moves the pending samples to the writer and keeps `written ++ pending` -/
theorem streaming_flush_inv (c : Streaming) (rows : List Row) (hs : c.out.script = [])
    (h : writtenRows c.out ++ c.inner.samples = rows) :
    (c.flush).1.out.script = [] ∧ writtenRows (c.flush).1.out ++ (c.flush).1.inner.samples = rows := by
  unfold Streaming.flush
  by_cases h0 : c.info.2 = 0
  · simp [h0, hs, h]
  · simp only [h0, if_false]
    cases hres : c.resolve with
    | none => simp [hs, h]
    | some docs =>
      have hsam := resolve_samples c.inner docs hres
      simp only [Writer.write, hs, if_true]
      refine ⟨by simp only [Streaming.reset]; try exact hs, ?_⟩
      simp only [Streaming.reset, writtenRows, List.map_append, List.flatten_append, List.map_cons,
        List.map_nil, List.flatten_cons, List.flatten_nil, List.append_nil, hsam]
      simp only [Better.reset, Better.samples, Option.isSome_none, Bool.false_eq_true, if_false, List.append_nil]
      exact h

/-- one `Add` of the schema-aware streaming collector, remembering the accepted documents -/
def addLogSD (acc : StreamingDynamic × List BDoc) (d : BDoc) : StreamingDynamic × List BDoc :=
  let r := acc.1.add d
  (r.1, if r.2 = .ok then acc.2 ++ [d] else acc.2)

theorem sd_flush_inv (c : StreamingDynamic) (rows : List Row) (hs : c.s.out.script = [])
    (h : writtenRows c.s.out ++ c.s.inner.samples = rows) :
    (c.flush).1.s.out.script = [] ∧ writtenRows (c.flush).1.s.out ++ (c.flush).1.s.inner.samples = rows := by
  have := streaming_flush_inv c.s rows hs h
  unfold StreamingDynamic.flush
  cases hf : c.s.flush with
  | mk s' ok =>
    rw [hf] at this
    by_cases hcond : ok = true ∧ c.s.info.2 ≠ 0
    · simp only [if_pos hcond]; exact this
    · simp only [if_neg hcond]; exact this

theorem sd_step (c : StreamingDynamic) (acc : List BDoc) (d : BDoc) (hs : c.s.out.script = [])
    (h : writtenRows c.s.out ++ c.s.inner.samples = acc.map fun x => (extractDoc x).map (·.1)) :
    (addLogSD (c, acc) d).1.s.out.script = [] ∧
    writtenRows (addLogSD (c, acc) d).1.s.out ++ (addLogSD (c, acc) d).1.s.inner.samples =
      (addLogSD (c, acc) d).2.map fun x => (extractDoc x).map (·.1) := by
  -- after the optional schema-change flush the wrapped streaming collector takes the sample
  have key : ∀ (c1 : StreamingDynamic), c1.s.out.script = [] →
      writtenRows c1.s.out ++ c1.s.inner.samples = acc.map (fun x => (extractDoc x).map (·.1)) →
      (c1.s.add d).1.out.script = [] ∧
      writtenRows (c1.s.add d).1.out ++ (c1.s.add d).1.inner.samples =
        (if (c1.s.add d).2 = .ok then acc ++ [d] else acc).map fun x => (extractDoc x).map (·.1) := by
    intro c1 hs1 h1
    have := streaming_step c1.s acc d hs1 h1
    simpa [addLog] using this
  unfold addLogSD StreamingDynamic.add
  cases hh : c.hash with
  | none =>
    simp only
    by_cases hc : c.s.count > 0
    · simp only [hc, if_true]
      obtain ⟨f1, f2⟩ := sd_flush_inv c _ hs h
      by_cases hok : (c.flush).2 = true
      · simp only [hok, Bool.not_true, Bool.false_eq_true, if_false]
        exact key _ f1 f2
      · have hok' : (c.flush).2 = false := by simpa using hok
        simp [hok', f1, f2]
    · simp only [hc, if_false, Bool.not_true, Bool.false_eq_true]
      exact key c hs h
  | some hsh =>
    dsimp only
    by_cases hc : hsh ≠ schemaKey d
    · rw [if_pos hc]
      obtain ⟨f1, f2⟩ := sd_flush_inv c _ hs h
      by_cases hok : (c.flush).2 = true
      · simp only [hok, Bool.not_true, Bool.false_eq_true, if_false]
        exact key _ f1 f2
      · have hok' : (c.flush).2 = false := by simpa using hok
        simp [hok', f1, f2]
    · rw [if_neg hc]
      simp only [Bool.not_true, Bool.false_eq_true, if_false]
      exact key c hs h

/-- the same for the schema-aware streaming collector (schema changes flush early; nothing is
lost, duplicated or reordered across them) -/
theorem streaming_dynamic_faithful_log (n : Nat) (ds : List BDoc) :
    let r := ds.foldl addLogSD (StreamingDynamic.new n, [])
    writtenRows r.1.s.out ++ r.1.s.inner.samples = r.2.map fun x => (extractDoc x).map (·.1) := by
  have : ∀ (ds : List BDoc) (c : StreamingDynamic) (acc : List BDoc), c.s.out.script = [] →
      writtenRows c.s.out ++ c.s.inner.samples = acc.map (fun x => (extractDoc x).map (·.1)) →
      writtenRows (ds.foldl addLogSD (c, acc)).1.s.out ++ (ds.foldl addLogSD (c, acc)).1.s.inner.samples =
        (ds.foldl addLogSD (c, acc)).2.map fun x => (extractDoc x).map (·.1) := by
    intro ds
    induction ds with
    | nil => intro c acc _ h; exact h
    | cons d ds ih =>
      intro c acc hs h
      obtain ⟨h1, h2⟩ := sd_step c acc d hs h
      simp only [List.foldl_cons]
      have e : addLogSD (c, acc) d = ((addLogSD (c, acc) d).1, (addLogSD (c, acc) d).2) := rfl
      rw [e]
      exact ih _ _ h1 h2
  exact this ds (StreamingDynamic.new n) [] rfl
    (by simp [writtenRows, StreamingDynamic.new, Streaming.new, Better.samples])

/-! non-vacuity: a concrete history -/
example : (({ maxDeltas := 1 } : Better).run
    [.add (.cons [97] (.int64 1#64) .nil), .add (.cons [97] (.int64 2#64) .nil),
     .add (.cons [97] (.int64 3#64) .nil), .resolve, .info]).samples = [[1#64], [2#64]] := by
  decide

end Ftdc.Props.C07
